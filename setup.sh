#!/bin/bash
# Run once after a fresh restore, offline. Every check rebuilds from /repo's working tree; this
# only primes the Go build cache (plain and -race variants) so the first check is not slow.
set -u
cd "$(dirname "${BASH_SOURCE[0]}")/harness" || exit 1
export GOFLAGS=-mod=mod GOPROXY=off GOSUMDB=off GOTOOLCHAIN=local
T="$(mktemp -d)"; trap 'rm -rf "$T"' EXIT
go build -tags verif -o "$T/vmon" ./cmd/vmon || go build -o "$T/vmon" ./cmd/vmon || exit 1
go build -tags verif -race -o "$T/vmon_race" ./cmd/vmon || go build -race -o "$T/vmon_race" ./cmd/vmon || exit 1
(cd /repo && go build -o "$T/cli" .) || exit 1
echo "setup ok"
