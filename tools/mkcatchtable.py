#!/usr/bin/env python3
"""Regenerates the seeded-change table of DESIGN.md (between the CATCH-TABLE markers) from seeded/*/meta.json and selftest/mutants."""
import json, glob, os, re
V = os.path.dirname(os.path.dirname(os.path.abspath(__file__)))
rows = []
for d in sorted(glob.glob(f"{V}/seeded/*/meta.json")):
    m = json.load(open(d)); name = os.path.basename(os.path.dirname(d))
    note = m.get("note", "")
    missed = "yes — " + note if note.lower().startswith("initially") else ("" if not note else note)
    rows.append(f"| {name} | {m['property']} | {m['needs_to_manifest']} | {', '.join(m['caught_by_quick_checks'])} | {missed} |")
tbl = "| change | brief | what it needs in order to manifest | quick checks that fire | initially missed? what was strengthened |\n|---|---|---|---|---|\n" + "\n".join(rows)
own = sorted(os.path.basename(f)[:-5] for f in glob.glob(f"{V}/selftest/mutants/*.diff"))
tbl += "\n\nHand-written and campaign-derived single-edit mutants (`selftest/mutants/`, each one passes the pinned suite and is caught by the quick check of the property in its name; run `selftest/run.sh`): " + ", ".join(f"`{o}`" for o in own) + ".\n"
p = f"{V}/DESIGN.md"
s = open(p).read()
a, b = "<!-- CATCH-TABLE-BEGIN -->", "<!-- CATCH-TABLE-END -->"
if a in s:
    s = s[:s.index(a) + len(a)] + "\n" + tbl + "\n" + s[s.index(b):]
    open(p, "w").write(s)
    print("table updated:", len(rows), "seeded changes,", len(own), "own mutants")
else:
    print("markers not found")
