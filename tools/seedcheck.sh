#!/bin/bash
# Self-test helper (not a MANIFEST command):  tools/seedcheck.sh <patch.diff> <PROP-ID> [more PROP-IDs...]
# Applies a seeded change to a scratch worktree of /repo, confirms that the pinned suite still
# passes there, runs the named quick checks against that copy (VERIF_REPO) and reports which fire.
# The worktree and its build output are removed afterwards.
set -u
PATCH="$(readlink -f "$1")"; shift
export GOFLAGS=-mod=mod GOPROXY=off GOSUMDB=off GOTOOLCHAIN=local
V="$(cd "$(dirname "${BASH_SOURCE[0]}")/.." && pwd)"
WT="$(mktemp -d /tmp/seedwt.XXXXXX)"; rmdir "$WT"
git -C /repo worktree add -q --detach "$WT" HEAD || exit 3
cleanup() { git -C /repo worktree remove --force "$WT" 2>/dev/null; rm -rf "$WT" "$OUT"; }
OUT="$(mktemp -d /tmp/seedout.XXXXXX)"
trap cleanup EXIT
if ! git -C "$WT" apply "$PATCH"; then echo "RESULT patch does not apply"; exit 3; fi
if [ "${SKIP_SUITE:-0}" != 1 ]; then
  if (cd "$WT" && go build ./... && go test -vet=off -count=1 ./... >"$OUT/suite.log" 2>&1); then echo "suite: passes with the change"; else echo "RESULT suite FAILS with the change"; tail -15 "$OUT/suite.log"; exit 4; fi
fi
rc=0
for id in "$@"; do
  VERIF_REPO="$WT" VERIF_OUT="$OUT/$id" "$V/run.sh" "$id" "${TIER:-quick}" >"$OUT/$id.log" 2>&1; code=$?
  nv=$(grep -a -c '^VIOLATION' "$OUT/$id.log")
  echo "check $id: exit=$code violations=$nv  $(grep -a -m1 -A1 '^VIOLATION' "$OUT/$id.log" | tail -1 | cut -c1-220)"
  grep -a -m3 '^INCONCLUSIVE' "$OUT/$id.log" | cut -c1-300
  [ "$code" = 1 ] && rc=1
done
[ $rc = 1 ] && echo "RESULT caught" || echo "RESULT missed"
