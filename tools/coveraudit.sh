#!/bin/bash
# tools/coveraudit.sh [tier=quick] [ids...] — self-audit, not a MANIFEST command: which statements of the
# repository do the monitors' workloads actually execute?  Builds monitor and CLI with -cover (run.sh,
# VERIF_COVER_DIR), runs the checks against /repo without touching /verif/evidence, merges the counters and
# prints the per-function coverage plus every uncovered block of the non-test sources.
cd "$(dirname "${BASH_SOURCE[0]}")/.."
export GOFLAGS=-mod=mod GOPROXY=off GOSUMDB=off GOTOOLCHAIN=local
tier="${1:-quick}"; shift
ids="${*:-$(python3 -c "import json; print(' '.join(c['property_id'] for c in json.load(open('MANIFEST.json'))['checks']))")}"
out="$(mktemp -d /tmp/cover.XXXXXX)"
for id in $ids; do echo $id; done | xargs -P "${PAR:-4}" -I{} bash -c 'VERIF_COVER_DIR='"$out"'/cov/{} VERIF_REPO=/repo VERIF_OUT='"$out"'/o/{} ./run.sh {} '"$tier"' > '"$out"'/{}.log 2>&1; echo "{} exit=$?"'
dirs=$(ls -d "$out"/cov/* | paste -sd,)
(cd /repo && go tool covdata textfmt -i="$dirs" -o "$out/all.txt" && go tool cover -func="$out/all.txt" > "$out/func.txt")
grep -v '100.0%' "$out/func.txt"
echo "--- uncovered blocks (file:startline.col,endline.col statements) ---"
awk 'NR>1 && $3==0 {print $1" "$2}' "$out/all.txt" | sort -u | sort -t: -k1,1 -k2,2n
echo "(per-check counters in $out/cov, merged profile $out/all.txt)"
