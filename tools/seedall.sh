#!/bin/bash
# tools/seedall.sh — regression run of the monitors against every kept seeded change: for each
# seeded/<name> re-confirm it (applies to /repo HEAD, suite passes, demo fails) and run the quick
# checks listed in its meta.json. Prints one line per change; "MISSED" / "STALE" lines need attention.
cd "$(dirname "${BASH_SOURCE[0]}")/.."
ls -d seeded/*/ | xargs -P "${PAR:-4}" -I{} bash -c '
d={}; n=$(basename $d)
ids=$(python3 -c "import json; print(\" \".join(json.load(open(\"$d/meta.json\"))[\"caught_by_quick_checks\"]))")
r=$(tools/seedverify.sh $d $ids 2>&1 | grep SUMMARY)
if echo "$r" | grep -q "does not apply"; then echo "STALE  $n: patch no longer applies to HEAD";
elif echo "$r" | grep -q "exit=1"; then echo "caught $n: $(echo "$r" | sed "s/.*| //" | cut -c1-160)";
else echo "MISSED $n: $r" | cut -c1-300; fi'
