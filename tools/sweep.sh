#!/bin/bash
# tools/sweep.sh [tier] [seeds...]  — runs every check at the given seeds against /repo without touching
# /verif/evidence (VERIF_OUT); prints one line per (check, seed) that did not exit 0 and a summary.
cd "$(dirname "${BASH_SOURCE[0]}")/.."
tier="${1:-quick}"; shift
seeds="${*:-1 2 3 7 42 12345}"
out="$(mktemp -d /tmp/sweep.XXXXXX)"
ids=$(python3 -c "import json; print(' '.join(c['property_id'] for c in json.load(open('MANIFEST.json'))['checks']))")
for s in $seeds; do for id in $ids; do echo "$id $s"; done; done | xargs -P "${PAR:-4}" -L 1 bash -c 'VERIF_SEED=$1 VERIF_REPO=/repo VERIF_OUT='"$out"'/$0_$1 ./run.sh $0 '"$tier"' > '"$out"'/$0_$1.log 2>&1; echo "$0 seed=$1 exit=$?"' | tee "$out/summary" | grep -v "exit=0"
echo "runs: $(wc -l < "$out/summary"), non-zero: $(grep -vc 'exit=0' "$out/summary")  (logs in $out)"
