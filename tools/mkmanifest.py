#!/usr/bin/env python3
"""Regenerates /verif/MANIFEST.json from the table below (kept in one place so the file is always valid)."""
import json, os, sys

VERIF = os.path.dirname(os.path.dirname(os.path.abspath(__file__)))

# id -> (technique, level text, level note, design ref)
CHECKS = {
 "C01": ("reference-model monitor (exact rational interval oracle) over complete 8-bit enumeration + boundary-directed random inputs",
         "Every size/comparison verdict of the real library is compared with an independent big-rational interval oracle: all non-zero int8/uint8 values x all bounds in a window enumerated completely, plus boundary-directed values (bound-1, bound, bound+1, multi-byte strings, slices, floats adjacent to the bound) for every other kind, through Var, Struct, Map and Url. Held = no disagreement on the executions listed in the evidence.",
         "Trusts math/big and the harness's clause parser; NaN/Inf floats and bounds outside int range are out of scope; executions only, not a proof.", "§3 C01"),
 "C10": ("Go race detector + linearizability checking of recorded histories (porcupine) + quiescent conservation monitor",
         "One LRUCache is driven by 2-16 goroutines in a -race binary. (1) every race-detector report with a library frame is a violation; (2) thousands of small histories recorded at the client boundary with logical call/return stamps are checked for linearizability against the sequential LRU model with porcupine (no per-key partitioning, eviction couples keys); (3) large runs are checked at quiescence for Len<=capacity, Len==#hitting keys, Dump/Len agreement and exactly-once callback conservation. Evidence reports distinct interleavings and the op-pair overlap matrix actually observed. A sequential probe, independent of Dump's format, requires that its text names every live entry (by key or value) and no removed value.",
         "Only executed interleavings are judged; the race detector sees only executed access pairs; porcupine v1.3.0 and the 30-line model are trusted; deadlock is decided by classifying the goroutine dump of a watchdog-killed child, never by a clock.", "§3 C10"),
 "C14": ("generator-as-oracle round-trip monitor + algebraic no-loss law on arbitrary strings",
         "Rule lists rendered with GenValidKV and RM.Set are read back through RM.Get, ValidNamesSplit and ParseValidNameKV and compared with the triples the generator rendered (count, order, key, value, labelled message); the splitter's no-loss law and fast-path/slow-path agreement are checked on millions of arbitrary strings. The builder is also called twice with an argument slice the caller keeps (args...): same text both times, slice unchanged.",
         "Rule text is restricted as documented (commas only inside quotes, balanced quotes, no | in values, no leading =, non-empty messages).", "§3 C14"),
 "C15": ("clause-level monitor of custom messages + extractor checked against the parsed clauses of real library errors",
         "For every message-capable rule, failing and passing values, ten message shapes and five carriers the clause must show label+message verbatim; GetOnlyExplainErr is run on real library errors in every order pattern of Chinese-labelled, English-labelled, unknown-rule and rule-writing clauses (all patterns up to length 4, random up to 8, with trailing group clauses) and compared with the explanation parts of the parsed clauses.",
         "Default wording is not pinned word for word; messages contain no clause separator or label text; the clause parser is trusted.", "§3 C15"),
 "C20": ("differential monitor against encoding/json over run-time synthesised struct types",
         "GetDumpStructStr is run on random values of random reflect.StructOf types (empty structs, unexported first/all fields, nested pointers, slices, arrays, string- and integer-keyed maps, nil at every level); the output must be valid JSON and decode to the same document as the standard encoding after the documented deviations, numbers compared exactly.",
         "encoding/json is the trusted reference; strings without characters needing escapes; float32 restricted to multiples of 1/8; embedded fields, []byte and multi-level pointers excluded.", "§3 C20"),
 "C06": ("before/after file monitor: independent tag merger (go/parser + hand-written scanner) + byte comparison outside tag literals",
         "Generated Go files of seven shape classes, plus real-world sources found on the machine (protoc-gen-go output in the module cache, standard-library files) annotated by the harness or left as they are, are processed by the library entry points and by the freshly built CLI (-f, -d, -p); for every annotated field the output's ordered key/value list must equal the independently computed merge (existing keys in place, overridden values, new keys appended, no duplicates), every byte outside the annotated fields' tag literals must be unchanged and the output must parse.",
         "go/parser is trusted; domain limited as the property states (backquoted conventional tags, trailing comments of the field — several are merged in order —, top-level declarations; grouped declarations may be processed or not; a value containing a backquote cannot be injected and must leave the field untouched).", "§3 C06"),
 "C07": ("byte-equality monitor over repeated injector runs (histories mixing library, -f, -d, -p)",
         "The C06 corpus (generated classes and real-world sources) plus annotation-free files, comments repeating a key and the parseable-but-awkward shapes of C19 is processed 2-5 times with randomly mixed entry points; the bytes after run n+1 must equal those after run n, and annotation-free files must never change. The check is vacuous-proofed by requiring that >=90% of annotated files were actually modified by run 1. The corpus includes files larger than a mebibyte, literals that repeat a key, annotated fields without a literal and keys with a hyphen or a dot.",
         "Idempotence is judged independently of correctness; SHA/bytes comparison only.", "§3 C07"),
 "C19": ("fault-injected directory workloads against the built CLI (content faults, permission faults at open as an unprivileged process, degenerate invocations); snapshot comparison + C06 oracle per processable file",
         "Directories mixing processable files with syntactically broken, truncated, empty and binary .go files, parseable-but-awkward files (no tag literal, malformed @tag, grouped/local/generic types, interpreted/empty literals), non-Go files, sub-directories and a directory named x.go are processed with -f/-d/-p/-p '*'; exit status and panic text are observed, unprocessable files must be byte-identical and every parseable file must equal the documented merge (so a crash or early stop that leaves later files un-injected is detected). I/O faults are injected at the open system call: the CLI runs as an unprivileged user over directories holding unreadable (mode 0000) and read-only (0444) files among processable ones — the unreadable file must stay byte-identical, the read-only one byte-identical or correctly injected, every other file must be processed, no crash; and degenerate invocations (missing directory, a file given as directory, malformed or unmatched glob patterns, missing file, empty arguments, no arguments) must neither crash nor touch a bystander. The thorough tier adds a coverage-guided fuzz target feeding arbitrary bytes named *.go to the injector.",
         "I/O faults are permission faults at open (a failing write in the middle of a file is outside the statement: the tool rewrites in place); files in sub-directories are only required not to be corrupted.", "§3 C19"),
 "C09": ("online reference-model monitor, bounded-exhaustive operation sequences + long random sequences",
         "The real LRUCache is stepped in lock-step with a 30-line reference LRU; return value, Len, removal-callback log and full recency order (Dump) are compared after every single operation. All sequences up to the length bound over a 10-letter alphabet on capacities 0..4 are enumerated completely; long random sequences cross the map-rebuild threshold thousands of times; values of every dynamic kind (nil interface, typed nil, uncomparable) go through Delete / eviction / overwrite; and a fault is injected at the hook: a removal callback that panics on every k-th invocation while the caller recovers, after which the cache must still follow the model. The callback is a setting: a callback installed earlier never fires again and the recorder, re-installed every few operations, fires once per removal.",
         "Trusts the reference model's reading of the statement (Store on a live key replaces and touches, no callback on replacement); sequences longer than the bound are sampled, not enumerated.", "§3 C09"),
 "C02": ("reference-model monitor: independent validator + clause parser, sequence comparison of (path, rule-instance marker, echo) on run-time synthesised struct types",
         "Random struct types built with reflect.StructOf (nesting through values, pointers, slices, arrays, maps; unexported fields) carry 0-5 rules per field with unique custom messages, repeated rules, empty items, unknown names and either/botheq groups; values are tuned so each rule fails about half the time. The parsed clause sequence of Struct / ValidateStruct / StructForFn / top-level slice, array and map inputs / Var / Map / Url must equal the independent reference validator's: same clauses, none missing, none duplicated, declaration-then-rule order (Go map entries and group clauses as multisets), echo of scalars, no trailing separator, nil iff no clause.",
         "The reference validator (harness/internal/ref) is trusted as the reading of the documentation; cases with a rule whose verdict the documentation leaves open are skipped and counted; messages never contain the separator or a label.", "§3 C02"),
 "C03": ("reference-model monitor over a completely enumerated cross product (type x emptiness state x rule form x entry point)",
         "Every combination of 33 field types, their emptiness states (zero, nil, empty non-nil, populated), every rule applicable to the kind written as R / required,R / R,required / required, and eight entry points (struct tag, struct RM, a struct field between time.Time / string / integer neighbours, Var, map[string]T, map[string]interface{}, []map, Url incl. absent / empty / duplicated keys) is executed; required must be reported iff the value is empty and no other rule may produce a clause on an empty value.",
         "map[string]interface{} carriers have two open known findings (KNOWN_FINDINGS.txt).", "§3 C03"),
 "C05": ("reference-model monitor: hand-written three-valued recognisers (no regexp, no time.Parse) vs the library on members, all single-character edits of members and random strings",
         "For each format/content rule the library's verdict through Var (1/8 also through Struct) is compared with an independent recogniser on valid members from a per-rule constructor, every single-character delete / insert / substitute / transpose of a member, random strings over a hostile alphabet, every datetime separator triple from a 7-symbol set, quoted options and patterns, numeric and slice inputs. Where the documentation does not fix membership the recogniser answers 'unspecified' and the case is counted, not judged. Date and time texts are also judged with the process's local time zone set to six daylight-saving zones, on every wall-clock time those zones skip in 2012-2026.",
         "Trusts the recognisers' reading of the README; the regexp engine is trusted for re (only pattern extraction is under test); file/dir are judged against a tree the harness created.", "§3 C05"),
 "C13": ("crash monitor: recover() around every call + child-process exit status and journal, over a directed catalogue, grammar-aware rule mutation, random bytes and (thorough) coverage-guided native fuzzing",
         "Every public entry point is called with a complete catalogue of nil / typed-nil / nested-nil / wrong-kind inputs, with every rule key under 80 argument mutations (missing, foreign, unbalanced quotes and brackets, 0-6 separators, invalid regex, overflowing bounds, 70 KB, NUL, invalid UTF-8) on values of every kind, and with random bytes as rule text on random run-time synthesised object graphs; the thorough tier adds four coverage-guided native fuzz targets. Any panic or process-fatal error is a violation, signed by entry point + innermost library function + normalised message.",
         "Excludes cyclic graphs, panicking user callbacks and reuse of a consumed validator, as the property does; only executed inputs are judged.", "§3 C13"),
 "C08": ("relational monitor across child processes: one call history replayed under 17 cache configurations / call orders, per-call comparison with an always-miss (history-free) baseline",
         "The same seeded history of ValidateStruct / StructForFn / Struct calls (types with independent rule sets under three tag names; A-then-B, A-B-A, override-then-plain patterns; sweeps over 620 one-off types that overflow a 512-entry cache) is executed in child processes that differ only in the cache installed through SetStructTypeCache (default, instrumented LRU of capacity 512/0/1/2/3/8, bare NewLRU(1/2/8), sync.Map, always-miss, amnesiac) or in call order (reversed, doubled). Every call must return the same clause list in every child. Instrumented caches report hits, misses, evictions and re-analyses actually observed. The histories also ask for the empty tag name and let the struct dumper (another reader of the type cache) meet a type before the validator does.",
         "Clauses compared as sorted lists; no Go maps inside values; the reference validator is only used to say which side is wrong in a witness.", "§3 C08"),
 "C04": ("reference-model monitor: independent recursive descent vs the library on random acyclic object graphs with decoy sub-objects",
         "Random object graphs of a recursive family of named types (depth 0-5, every container form, nil / zero / populated nodes, nil elements) and of run-time synthesised struct types (nesting depth <= 4) are validated through value, pointer, pointer-to-pointer, slice, array and map top-level inputs. The (path, rule instance) pairs of the returned error must equal the reference validator's descent (descend iff required-and-non-empty or exist-and-non-zero; Parent.Field, [i], [key] naming). Independently of the reference, no clause may ever name one of the decoy sub-objects placed on unmarked, unexported and time.Time fields.",
         "Acyclic graphs only; Go map entries compared as multisets; the reference validator's reading of the path naming rule is calibrated on the repository's own expected outputs.", "§3 C04"),
 "C16": ("reference-model monitor: rule-source and function-resolution markers compared with an independent selection model",
         "Object graphs of three named types that share field names (the outermost type also occurs nested) are validated with every layout of supplied rule sets (unscoped, scoped to inner / outer / several types, empty scoped set) through all seven public routes; rule names resolve to per-call, global (some replacing built-ins) and built-in functions in every collision class and to unknown names. Every rule source and every function registration writes a distinct marker, so the returned (path, marker) sequence shows which source judged each field; it must equal the reference model's selection (supplied replaces tag per field, scoped set applies to its type everywhere, unscoped to the outermost struct only, per-call > global > built-in, unknown name = one clause and the other rules still run).",
         "Combinations the documentation does not order (non-empty scoped-outer set together with an unscoped set; unscoped set with top-level slice/map input) are not generated.", "§3 C16"),
 "C17": ("reference-model monitor: per-object group evaluation vs the library, with different value patterns in different elements",
         "Struct types with 1-3 either/botheq groups (members of several kinds, singleton groups, messages on the group rule) are validated alone, as elements of slices, arrays and maps, nested under exist/required fields and as top-level collections, with different emptiness / equality patterns in different elements so that merging groups across objects changes the verdict; the same groups through Map, []map and Url. Group clauses (kind, member list) and singleton rule-writing clauses must equal the reference's per-object all-empty / all-equal evaluation. Members include struct and array kinds, interface members holding one payload under different dynamic types, and map inputs whose key type is a defined string type.",
         "Member keys are always present for map/URL inputs; member order inside a clause is unspecified for Go maps.", "§3 C17"),
 "C18": ("relational monitor: marker sets of one (value, rule list) compared across ten carriers",
         "One scalar value under 1-4 rules supported by all inputs (unique message per rule instance) is presented as struct field (tag and RM), Var, map[string]T, map[string]interface{}, []map and, for strings, Url in raw, percent-encoded (among decoys, first/middle/last) and whole-URL-encoded form, with values containing & = + % ? # space and CJK. The set of reported rule instances must be identical for every carrier; any carrier-specific extra clause is a violation too. One rule list in nine shares one message among its rules; marker lists are compared with their multiplicities.",
         "No model decides the verdict (the reference validator only names the odd one out); map[string]interface{} carriers have an open known finding.", "§3 C18"),
 "C11": ("Go race detector + solo-vs-concurrent result comparison under goroutine stampedes with yield injection through the public cache interface",
         "A -race binary releases 2-32 goroutines together on a cold type cache; each executes hundreds to thousands of heterogeneous calls (every public entry point, three tag names, overrides, per-call functions, groups, one-off types) on independent inputs of shared and private struct types, under the default cache and under NewLRU(2) wrapped by a cache that yields between a Load miss and the following Store. In addition 8 (thorough: 40) cold-start processes make their very first library calls from 8-32 goroutines at once (lazily created package state is set up under contention). Every call is then executed again alone and the two results must be equal; every race-detector report with a library frame, panic, fatal error or hang in the library's lock is a violation. Evidence reports calls in flight, double misses, cross-goroutine pool hand-overs and overlapping entry-point pairs actually observed.",
         "Only executed interleavings are judged; schedule-dependent minimums are met by repeating the run (by count, never by clock); results compared as sorted clause lists.", "§3 C11"),
 "C12": ("relational history monitor (orders, permutations, adversarial predecessors, fresh-process samples) + twin-input mutation check + retained-string monitor under checkptr",
         "A seeded history of heterogeneous calls is executed in order, reversed, in seeded permutations and with an adversarial predecessor (other tag, other override, per-call functions of the same names, entry-guard refusals) before every call; per call all results must be equal, and equal to the call executed as the first call of a fresh process for a sample. Inputs are compared with twins built from the same seed after the calls (input and rule maps unmodified). Every returned error text, split token and parsed triple is retained next to a byte copy and re-compared after later calls and garbage collections. The same Url call (several absent required keys, keys differing in letter case, groups) is repeated 60 times and must return the same text every time.",
         "Functions inside Name2FnMap are compared by key only; -race implies checkptr for the unsafe string conversions; sampled fresh-process comparison.", "§3 C12"),
}

NOT_YET = "monitor not built yet (planned, see DESIGN.md §3)"

def main():
    props = [json.loads(l) for l in open(os.path.join(VERIF, "properties.jsonl"))]
    checks, na = [], []
    for p in props:
        pid = p["id"]
        if pid in CHECKS:
            tech, text, note, ref = CHECKS[pid]
            checks.append({
                "property_id": pid,
                "quick_cmd": f"./run.sh {pid} quick",
                "thorough_cmd": f"./run.sh {pid} thorough",
                "evidence_file": f"/verif/evidence/{pid}.json",
                "replay_cmd_template": "./run.sh replay {path}",
                "engine": "vmon",
                "level_claimed": {"category": "exploration", "text": text, "design_ref": ref},
                "level_note": note,
                "technique": tech,
            })
        else:
            na.append({"property_id": pid, "reason": NOT_YET})
    hooks_commits = []
    hf = os.path.join(VERIF, "MANIFEST.hooks")
    if os.path.exists(hf):
        for l in open(hf):
            l = l.strip()
            if l and not l.startswith("#"):
                hooks_commits.append(l.split()[0])
    m = {
        "version": 1,
        "setup_cmd": "./setup.sh",
        "hooks": {
            "guard": "verif",
            "enable": "go build -tags verif (run.sh builds the harness module, which replaces gitee.com/xuesongtao/protoc-go-valid => /repo, with -tags verif; falls back to an untagged build if the optional hook file no longer compiles)",
            "baseline_off_cmd": "cd /repo && GOFLAGS=-mod=mod GOPROXY=off GOSUMDB=off GOTOOLCHAIN=local go test -json -vet=off -count=1 -timeout 25m ./...",
            "source_commits": hooks_commits,
            "add_only": True,
        },
        "engines": [{
            "name": "vmon", "path": "/verif/harness",
            "serves_properties": [c["property_id"] for c in checks],
            "kind_free_text": "Go harness: runs the real library / CLI from /repo's working tree under generated workloads in child processes; reference-model monitors, recorded-history checkers (porcupine), Go race detector; writes evidence/<id>.json",
        }],
        "checks": checks,
        "notes": "Technique family: runtime monitoring and sanitizers. exit 0 = held on what was explored, exit 1 + VIOLATION line = violation not listed in KNOWN_FINDINGS.txt, exit 3 = inconclusive (build failure, watchdog, minimum observations not met). Known findings: /verif/KNOWN_FINDINGS.txt.",
        "not_applicable": na,
    }
    with open(os.path.join(VERIF, "MANIFEST.json"), "w") as f:
        json.dump(m, f, indent=1, ensure_ascii=False)
        f.write("\n")
    print(f"MANIFEST.json: {len(checks)} checks, {len(na)} not_applicable")

if __name__ == "__main__":
    main()
