#!/bin/bash
# tools/seedround.sh [dir=/tmp/seedout] [id-glob] — verifies every <dir>/<ID>/<x>/patch.diff of a sub-agent round
# (seedverify) against the property's own check and its neighbours; one line per change.
cd "$(dirname "${BASH_SOURCE[0]}")/.."
D="${1:-/tmp/seedout}"
declare -A REL=( [C01]="C01 C02 C18" [C02]="C02 C03 C04" [C03]="C03 C02 C18" [C04]="C04 C02 C13" [C05]="C05 C02" [C06]="C06 C07 C19" [C07]="C07 C06" [C08]="C08 C12 C16" [C09]="C09 C10" [C10]="C10 C09" [C11]="C11 C12 C08 C10" [C12]="C12 C08 C11 C02" [C13]="C13 C04 C11" [C14]="C14 C12 C02" [C15]="C15 C02" [C16]="C16 C02 C12 C08" [C17]="C17 C02" [C18]="C18 C03 C02" [C19]="C19 C06 C07" [C20]="C20 C13" )
for p in "$D"/${2:-C??}/?/patch.diff; do
  d=$(dirname "$p"); id=$(basename $(dirname "$d")); echo "$d ${REL[$id]}"
done | xargs -P "${PAR:-5}" -L 1 bash -c 'tools/seedverify.sh "$0" "${@}" 2>&1 | grep SUMMARY' | sed 's/demo_clean=0(0 wanted) suite_with_change=0(0 wanted) demo_with_change=1(nonzero wanted) |/OK|/; s#SUMMARY '"$D"'/##' | sort | cut -c1-400
