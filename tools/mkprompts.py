#!/usr/bin/env python3
"""tools/mkprompts.py <round> [out=/tmp/seedout] — writes the sub-agent prompts of a seeding round:
<out>/<ID>.prompt<round>.txt = tools/seedprompt.tmpl with the property's title / statement / quantification
(nothing else from /verif), the scratch worktree /tmp/wt/<ID>, the output directory <out>/<ID>, and the list of
triggers already used for that property (seeded/*/meta.json: needs_to_manifest), which the new changes must avoid."""
import json, glob, sys, os
rnd = sys.argv[1]
out = sys.argv[2] if len(sys.argv) > 2 else "/tmp/seedout"
V = os.path.dirname(os.path.dirname(os.path.abspath(__file__)))
tmpl = open(os.path.join(V, "tools/seedprompt.tmpl")).read()
ALSO = ("Also not acceptable any more (seen many times): pointers into cached data, state surviving in sync.Pool objects, package-level state "
        "shared between calls, pooled scratch buffers, per-validator memos, compiled-regexp / resolved-function caches, 'decide from element 0' early exits, "
        "==/DeepEqual swaps, byte-vs-rune length, int64(uint) wraps, float64 comparisons of big integers, anything involving time.Time fields and "
        "field-table indexes/offsets, one-byte or '|'-containing custom messages, symlinks, Stringer or float map keys, repeated URL parameters, "
        "pointer-to-zero values, blank rule-map entries, *string URL inputs, RM.Set with several field names, zero-padded bounds, tag names differing in case, "
        "dropping the tag-name argument of an entry point, '#' in URLs, carriage returns, dot-files, uintptr, IPv6 zones, field names starting with a particular letter, "
        "byte order marks, panicking callbacks, nesting-depth limits, the most negative integer, empty pieces or bare keys or ';' in URL queries, quotes or brackets or leading blanks in messages, "
        "embedded fields, tag keys with underscores, a variable captured by a closure in a loop, reused reflect iteration holders, trimming blanks off rule text, arrays passed by value, unhashable interface values, "
        "invalid percent escapes, invalid UTF-8, '+' vs %20, element index rendering, **T fields, stat errors other than not-exist, value receivers copying a lock, double sync.Pool.Put, commas inside slice elements, the order of SetRule calls, "
        "substring tests on rule text, white space inside injected values, empty tag literals, local types inside functions, particular integer constants (100, 10, 32, 64, 16), "
        "odd map keys, multi-byte separators, '%' or '@' in tag values, unbalanced quotes in literals, duplicate neighbouring fields, long tag names, tolerance in float comparison, white-space-only values, "
        "bracket characters inside in/include options, lazily created package state, reference cycles between types, two-phase locking in Load, temp-file names, worker pools in the CLI, the idcard check digit, JSON longer than 256 bytes, float rendering, "
        "slice capacity, non-ASCII digits or look-alike characters, func/chan/complex fields, empty maps with wrong key types, capacity-0 caches, empty Set calls, the ErrEndFlag variable, rule-less URL parameters, query-only URLs, leaked locks, two rule maps to Struct, sorting callers' slices, aliased pointers, flushing per element, //line directives, interpreted string literals, repeated @tag markers, first-key overrides, leading white space in files, zero-size structs, scratch-buffer flush thresholds, arrays under required/exist, GetOr-style defaults, negative eq bounds, e-mail domains without a dot, read-only or unreadable files, missing directories and bad glob patterns, "
        "percent-encoded parameter NAMES, publishing a cache entry before it is complete, verdict of the last slice element only, kinds missing from the required descent, deleting from the caller's rule map, falling back to the default tag, pointers to collections, labels built from the type name instead of the path, the zero time, JSON numbers out of range, doc comments, TrimLeft/TrimRight cut sets, colons in tag values, files without a final newline, "
        "pre-filling cache entries for other tags, digests of tag names, ghost map entries after a rebuild, TryLock, check-then-act on the capacity, a second mutex, deferred work after the unlock, an object put into the wrong pool, return inside the loop over groups, a shared name buffer, dir on a regular file, lookup tables indexed by reflect.Kind, '%' and format strings, an empty value after '=', quoted values with a message, arguments in the wrong slot, return instead of continue on nil elements, "
        "letter case of rule names or arguments, an unknown rule in front of a group rule, %3D / %26 inside URL values, float map values, directory names that are glob patterns, a changed-flag overwritten in a loop, numeric map keys in the dumper, apostrophes, "
        "bounds outside the field type's range, negative bounds, exactly two datetime separators, int on floats, fields without @tag but with a plain comment, comment pairs identical to existing pairs, literals that repeat a key, annotated fields without a literal, "
        "the struct dumper sharing the type cache, pre-split rules on cache hits, stale map aliases across a rebuild, de-duplicated callbacks, reading fields before taking the lock, Len-then-walk in Dump, Signal instead of Broadcast, channel-backed pools, duplicate rule tokens in a tag, "
        "json on non-byte slices, empty options in in/include, setting the same rules twice, the first or last code point of the CJK range, an ideograph as last character, absent keys with several rules, required with a message on nested members, function rules on struct-kind fields, "
        "interface members of different dynamic types, defined string key types, strings.Split instead of the quote-aware splitter, required on false, '$' in tag literals, WalkDir/SkipDir, ',}' inside strings, slices of defined string types, negative zero, case-insensitive sorting, an always-empty Dump, "
        "group keys, a second '?' in a URL, trailing data after JSON, messages containing '=', unexported fields named by a rule map, nil interfaces, control characters, multi-line comments, exit status / && short-circuits, empty slices. "
        "First read ALL non-test source files and the README; make a list of every function, branch and documented behaviour relevant to this property "
        "that NONE of the items above touches, and pick from that list. Prefer faults in code paths that look boring (helpers in common.go / init.go / "
        "abstract.go / rule.go / handletag.go / witre.go / dump.go, error-path bookkeeping, separators, defaults, path naming, label handling, ordering of "
        "clauses, CLI flag handling) and triggers that combine two ordinary features in a way nobody combines in tests (two rules on one field interacting, "
        "a rule plus a group, nested plus override plus custom function, several files / several structs in one file, a rule applied to a kind it is rarely used with).")
EXTRA = {
    "C16": "Not acceptable either: anything that only shows when a NON-EMPTY rule set scoped to the outermost type is combined with an unscoped rule set in the same call (the documentation does not say which of the two wins, so neither behaviour breaks the property).\n",
    "C05": "Not acceptable either: anything the documentation leaves open (IPv6 zones, IPv4 octets with leading zeros, IPv4-mapped IPv6 text, signs and exponents under int/float, e-mail characters beyond word characters).\n",
}
os.makedirs(out, exist_ok=True)
for l in open(os.path.join(V, "properties.jsonl")):
    d = json.loads(l)
    pid = d["id"]
    prop = f"{pid} — {d['title']}\n\n{d['statement']}\n\nQuantification: {d['quantifier']['text']}"
    t = tmpl.replace("{PROP}", prop).replace("{WT}", f"/tmp/wt/{pid}").replace("{OUT}", f"{out}/{pid}")
    items = [" - " + json.load(open(m))["needs_to_manifest"][:220] for m in sorted(glob.glob(os.path.join(V, f"seeded/{pid}*/meta.json")))]
    avoid = ("Other people have already produced changes with the following triggers/mechanisms for this property; yours must be DIFFERENT from all of them "
             "(different code site or different kind of fault, different trigger):\n" + "\n".join(items) + "\n" + EXTRA.get(pid, "") + ALSO + "\n\n")
    k = t.index("Task: produce TWO")
    open(f"{out}/{pid}.prompt{rnd}.txt", "w").write(t[:k] + avoid + t[k:])
print("prompts written to", out)
