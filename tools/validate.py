#!/usr/bin/env python3
"""Validates MANIFEST.json and evidence/*.json against the schemas in /root/.vp."""
import json, sys, glob, os
sys.path.insert(0, "/opt/veriftools/pyvenv/lib/python3.11/site-packages")
try:
    import jsonschema
except Exception as e:
    print("jsonschema not importable:", e); sys.exit(2)
V = os.path.dirname(os.path.dirname(os.path.abspath(__file__)))
ok = True
ms = json.load(open("/root/.vp/MANIFEST.schema.json"))
es = json.load(open("/root/.vp/EVIDENCE.schema.json"))
try:
    jsonschema.validate(json.load(open(f"{V}/MANIFEST.json")), ms); print("MANIFEST ok")
except Exception as e:
    ok = False; print("MANIFEST INVALID:", str(e)[:500])
for f in sorted(glob.glob(f"{V}/evidence/*.json")):
    try:
        jsonschema.validate(json.load(open(f)), es); print(os.path.basename(f), "ok")
    except Exception as e:
        ok = False; print(os.path.basename(f), "INVALID:", str(e)[:500])
sys.exit(0 if ok else 1)
