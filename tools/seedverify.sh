#!/bin/bash
# Self-test helper: tools/seedverify.sh <dir with patch.diff + demo_test.go> <PROP-ID>...
# Confirms, in a scratch worktree of /repo: the patch applies, the pinned suite passes with it, the
# demonstration fails with it and passes without it; then runs the named quick checks against the
# changed copy. Prints one summary line. Removes the worktree afterwards.
set -u
D="$(readlink -f "$1")"; shift
export GOFLAGS=-mod=mod GOPROXY=off GOSUMDB=off GOTOOLCHAIN=local
V="$(cd "$(dirname "${BASH_SOURCE[0]}")/.." && pwd)"
WT="$(mktemp -d /tmp/seedwt.XXXXXX)"; rmdir "$WT"
OUT="$(mktemp -d /tmp/seedrun.XXXXXX)"
git -C /repo worktree add -q --detach "$WT" HEAD || exit 3
trap 'git -C /repo worktree remove --force "$WT" 2>/dev/null; rm -rf "$WT" "$OUT"' EXIT
demo="$D/demo_test.go"; [ -f "$demo" ] || demo="$D/demo_test.go.txt"
pkg=$(grep -m1 '^package ' "$demo" | awk '{print $2}')
case "$pkg" in valid|valid_test) pd=valid;; file|file_test) pd=file;; main) pd=.;; *) pd=valid;; esac
tests=$(grep -o '^func Test[A-Za-z0-9_]*' "$demo" | sed 's/func //' | paste -sd'|')
cp "$demo" "$WT/$pd/zz_demo_test.go"
(cd "$WT" && go test -vet=off -count=1 -run "^($tests)\$" ./$pd/ >"$OUT/demo_clean.log" 2>&1); dc=$?
rm "$WT/$pd/zz_demo_test.go"
if ! git -C "$WT" apply "$D/patch.diff" 2>"$OUT/apply.log"; then echo "SUMMARY $D: patch does not apply: $(head -2 "$OUT/apply.log")"; exit 3; fi
(cd "$WT" && go build ./... && go test -vet=off -count=1 ./... >"$OUT/suite.log" 2>&1); sc=$?
cp "$demo" "$WT/$pd/zz_demo_test.go"
(cd "$WT" && go test -vet=off -count=1 -run "^($tests)\$" ./$pd/ >"$OUT/demo_mut.log" 2>&1); dm=$?
if [ $dm = 0 ]; then # some demonstrations only fail under the race detector
  (cd "$WT" && go test -race -vet=off -count=1 -run "^($tests)\$" ./$pd/ >"$OUT/demo_mut_race.log" 2>&1); dm=$?
fi
rm "$WT/$pd/zz_demo_test.go"
res=""
for id in "$@"; do
  VERIF_REPO="$WT" VERIF_OUT="$OUT/$id" "$V/run.sh" "$id" "${TIER:-quick}" >"$OUT/$id.log" 2>&1; code=$?
  sig=$(grep -a -m1 "^  sig=" "$OUT/$id.log" | cut -c1-100)
  res="$res $id:exit=$code($sig)"
  if [ -n "${KEEPLOG:-}" ]; then cp "$OUT/$id.log" "$KEEPLOG.$id.log"; fi
done
echo "SUMMARY $D: demo_clean=$dc(0 wanted) suite_with_change=$sc(0 wanted) demo_with_change=$dm(nonzero wanted) |$res"
