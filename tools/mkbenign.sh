#!/bin/bash
# tools/mkmutant.sh <name> <file> <python-replace-old> <python-replace-new>   — creates selftest/mutants/<name>.diff from a one-line edit
set -eu
name="$1"; file="$2"; old="$3"; new="$4"
WT="$(mktemp -d /tmp/mut.XXXXXX)"; rmdir "$WT"
git -C /repo worktree add -q --detach "$WT" HEAD
trap 'git -C /repo worktree remove --force "$WT"' EXIT
python3 - "$WT/$file" "$old" "$new" <<'PY'
import sys
p,old,new=sys.argv[1:4]
s=open(p).read()
if s.count(old)!=1:
    print("pattern occurs",s.count(old),"times"); sys.exit(1)
open(p,'w').write(s.replace(old,new))
PY
git -C "$WT" diff > "/verif/selftest/benign/$name.diff"
echo "wrote selftest/benign/$name.diff"
