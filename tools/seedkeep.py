#!/usr/bin/env python3
"""tools/seedkeep.py <src dir> <name> <property> <caught_by csv> <needs> [<note>]  — copies a confirmed seeded change into /verif/seeded/<name>/"""
import sys, os, shutil, json
src, name, prop, caught, needs = sys.argv[1:6]
note = sys.argv[6] if len(sys.argv) > 6 else ""
d = f"/verif/seeded/{name}"
os.makedirs(d, exist_ok=True)
for f in ("patch.diff", "demo_test.go", "NOTES.md"):
    if os.path.exists(os.path.join(src, f)):
        shutil.copy(os.path.join(src, f), os.path.join(d, f if f != "demo_test.go" else "demo_test.go.txt"))
meta = {
    "property": prop,
    "origin": "independent sub-agent given only the property text and a scratch worktree",
    "needs_to_manifest": needs,
    "confirmed": "tools/seedverify.sh: patch applies to a scratch worktree of /repo HEAD; pinned suite passes with it; demonstration (demo_test.go.txt, drop into the package named in NOTES.md as *_test.go) passes without it and fails with it",
    "ran": f"tools/seedverify.sh /verif/seeded/{name} {' '.join(caught.split(','))}",
    "caught_by_quick_checks": [c for c in caught.split(",") if c],
    "note": note,
}
json.dump(meta, open(os.path.join(d, "meta.json"), "w"), indent=1, ensure_ascii=False)
print("kept", d)
