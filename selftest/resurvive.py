#!/usr/bin/env python3
"""selftest/resurvive.py <campaign dir> — re-runs the survivors of a mutation campaign against the CURRENT checks
(all quick checks mapped to the mutated file) and prints the ones that still survive."""
import sys, os, json, subprocess, re, concurrent.futures as cf
sys.path.insert(0, os.path.dirname(os.path.abspath(__file__)))
from mutcampaign import FILE_PROPS, V
d = sys.argv[1]
recs = {json.loads(l)["idx"]: json.loads(l) for l in open(os.path.join(d, "results.jsonl"))}
def one(f):
    idx = int(os.path.basename(f)[:-5]); r = recs[idx]
    ids = FILE_PROPS.get(r["file"], [])
    p = subprocess.run([os.path.join(V, "tools/seedcheck.sh"), f] + ids, stdout=subprocess.PIPE, stderr=subprocess.STDOUT, env=dict(os.environ, SKIP_SUITE="1"))
    out = p.stdout.decode(errors="replace")
    caught = "RESULT caught" in out
    return idx, r, caught, out
fs = sorted(os.path.join(d, "survivors", x) for x in os.listdir(os.path.join(d, "survivors")))
with cf.ThreadPoolExecutor(int(os.environ.get("PAR", "4"))) as ex:
    for idx, r, caught, out in ex.map(one, fs):
        if not caught:
            print(f"STILL #{idx} {r['file']}:{r['line']} [{r['op'][:12]}] {r['old'][:100]} -> {r['new'][:100]}", flush=True)
        else:
            m = re.search(r"check (C\d+): exit=1", out)
            print(f"now-caught #{idx} by {m.group(1) if m else '?'} {r['file']}:{r['line']}", flush=True)
