#!/usr/bin/env python3
"""Mutation campaign (self-test, not a MANIFEST command).

  selftest/mutcampaign.py --out DIR [--files valid/cache.go,...] [--max N] [--jobs J] [--seed S]

Generates single-edit mutants of the repository's non-test Go files (relational / logical operator
swaps, constant tweaks, continue<->break, dropped negation, deleted simple statements), keeps those
that still compile and pass the pinned suite, runs the quick checks of the properties anchored in
the mutated file against a scratch worktree (VERIF_REPO) and records which checks fire.
A mutant that passes the suite and all its checks is a *survivor*: either equivalent or a gap.
Results: DIR/results.jsonl, survivors' diffs in DIR/survivors/.
"""
import argparse, json, os, random, re, subprocess, sys, tempfile, shutil, concurrent.futures as cf

V = os.path.dirname(os.path.dirname(os.path.abspath(__file__)))
ENV = dict(os.environ, GOFLAGS="-mod=mod", GOPROXY="off", GOSUMDB="off", GOTOOLCHAIN="local")

FILE_PROPS = {
    "valid/cache.go": ["C09", "C10", "C08"],
    "valid/dump.go": ["C20", "C13"],
    "valid/rule.go": ["C14"],
    "valid/common.go": ["C01", "C02", "C05", "C14", "C15", "C13", "C12", "C16", "C04", "C20"],
    "valid/validfn.go": ["C01", "C05", "C15", "C13", "C02"],
    "valid/validstruct.go": ["C02", "C03", "C04", "C16", "C08", "C12", "C13"],
    "valid/abstract.go": ["C17", "C16", "C03", "C02"],
    "valid/validmap.go": ["C18", "C17", "C03", "C02", "C13", "C16", "C15"],
    "valid/validurl.go": ["C18", "C17", "C03", "C02", "C13", "C16"],
    "valid/validvar.go": ["C18", "C03", "C02", "C13", "C05", "C16", "C12"],
    "valid/init.go": ["C05", "C15", "C11", "C12", "C08"],
    "valid/internal/stack.go": ["C14"],
    "valid/internal/common.go": ["C14", "C12"],
    "file/parse.go": ["C06", "C07", "C19"],
    "file/handletag.go": ["C06", "C07", "C19"],
    "file/witre.go": ["C06", "C07", "C19"],
    "main.go": ["C19", "C06", "C07"],
}

OPS = [
    (r"<=", "<"), (r">=", ">"), (r"(?<![<>=!])<(?![=<-])", "<="), (r"(?<![<>=!-])>(?![=>])", ">="),
    (r"==", "!="), (r"!=", "=="), (r"&&", "||"), (r"\|\|", "&&"),
    (r"\bcontinue\b", "break"), (r"\bbreak\b", "continue"),
    (r"\+ 1\b", "+ 0"), (r"- 1\b", "- 0"), (r"\b0\b", "1"), (r"\b1\b", "0"), (r"\b2\b", "1"),
    (r"!(?=[a-zA-Z(])", ""), (r"\btrue\b", "false"), (r"\bfalse\b", "true"),
    (r"\+\+", "--"), (r"\+=", "-="), (r"\[:0\]", "[:1]"), (r"\bnil\b(?= \{)", "nil && false"),
]


def gen_mutants(repo, files, rng, per_file):
    out = []
    for f in files:
        if not os.path.exists(os.path.join(repo, f)):
            continue
        src = open(os.path.join(repo, f)).read().split("\n")
        cands = []
        in_block_comment = False
        for i, line in enumerate(src):
            st = line.strip()
            if st.startswith("/*"):
                in_block_comment = True
            if in_block_comment:
                if "*/" in st:
                    in_block_comment = False
                continue
            if not st or st.startswith("//") or st.startswith("import") or st.startswith("package"):
                continue
            code = line.split("//")[0] if '"' not in line else line
            for pat, rep in OPS:
                for m in re.finditer(pat, code):
                    # skip edits inside string literals (rough: odd number of quotes before the match)
                    pre = code[:m.start()]
                    if pre.count('"') % 2 == 1 or pre.count('`') % 2 == 1:
                        continue
                    new = code[:m.start()] + rep + code[m.end():] + line[len(code):]
                    cands.append((f, i, line, new, f"{pat}->{rep}"))
            # statement deletion: simple call / assignment lines
            if re.match(r"^\s*[A-Za-z_][\w\.\[\]\(\)\*]*\s*(=|:=|\+=|\()", line) and not st.endswith("{") and not st.startswith("return") and not st.startswith("func") and not st.startswith("case") and not st.startswith("if") and not st.startswith("for") and not st.startswith("var") and not st.startswith("defer"):
                if ":=" not in line:
                    cands.append((f, i, line, re.match(r"^\s*", line).group(0) + "// deleted: " + st, "delete-stmt"))
            if st.startswith("defer "):
                cands.append((f, i, line, re.match(r"^\s*", line).group(0) + st[len("defer "):], "drop-defer"))
        rng.shuffle(cands)
        out.extend(cands[:per_file])
    rng.shuffle(out)
    return out


def run(cmd, cwd=None, timeout=900, env=ENV):
    try:
        p = subprocess.run(cmd, cwd=cwd, env=env, stdout=subprocess.PIPE, stderr=subprocess.STDOUT, timeout=timeout)
        return p.returncode, p.stdout.decode(errors="replace")
    except subprocess.TimeoutExpired as e:
        return 124, (e.stdout or b"").decode(errors="replace")


def evaluate(idx, mut, outdir):
    f, i, old, new, op = mut
    wt = tempfile.mkdtemp(prefix="/tmp/mutwt.")
    os.rmdir(wt)
    rec = {"idx": idx, "file": f, "line": i + 1, "op": op, "old": old.strip(), "new": new.strip()}
    try:
        rc, o = run(["git", "-C", "/repo", "worktree", "add", "-q", "--detach", wt, "HEAD"])
        if rc != 0:
            rec["status"] = "worktree-failed"
            return rec
        p = os.path.join(wt, f)
        src = open(p).read().split("\n")
        if src[i] != old:
            rec["status"] = "stale"
            return rec
        src[i] = new
        open(p, "w").write("\n".join(src))
        rc, o = run(["go", "build", "./..."], cwd=wt, timeout=300)
        if rc != 0:
            rec["status"] = "no-compile"
            return rec
        rc, o = run(["go", "vet", "./..."], cwd=wt, timeout=300)
        rc, o = run(["go", "test", "-vet=off", "-count=1", "-timeout", "5m", "./..."], cwd=wt, timeout=600)
        if rc != 0:
            rec["status"] = "killed-by-suite"
            return rec
        rec["status"] = "survived-suite"
        rec["checks"] = {}
        caught = False
        for pid in FILE_PROPS.get(f, []):
            od = tempfile.mkdtemp(prefix="/tmp/mutout.")
            rc, o = run([os.path.join(V, "run.sh"), pid, "quick"], cwd=V, timeout=1500, env=dict(ENV, VERIF_REPO=wt, VERIF_OUT=od))
            shutil.rmtree(od, ignore_errors=True)
            sig = ""
            m = re.search(r"^  sig=(\S+)", o, re.M)
            if m:
                sig = m.group(1)
            rec["checks"][pid] = {"exit": rc, "sig": sig}
            if rc == 1:
                caught = True
                break  # one firing check is enough
            if rc == 3:
                rec["checks"][pid]["inconclusive"] = o[-400:]
        rec["caught"] = caught
        if not caught:
            os.makedirs(os.path.join(outdir, "survivors"), exist_ok=True)
            rc, d = run(["git", "-C", wt, "diff"])
            open(os.path.join(outdir, "survivors", f"{idx:04d}.diff"), "w").write(d)
        return rec
    finally:
        run(["git", "-C", "/repo", "worktree", "remove", "--force", wt])
        shutil.rmtree(wt, ignore_errors=True)


def main():
    ap = argparse.ArgumentParser()
    ap.add_argument("--out", required=True)
    ap.add_argument("--files", default=",".join(FILE_PROPS))
    ap.add_argument("--max", type=int, default=200)
    ap.add_argument("--per-file", type=int, default=40)
    ap.add_argument("--jobs", type=int, default=4)
    ap.add_argument("--seed", type=int, default=1)
    a = ap.parse_args()
    os.makedirs(a.out, exist_ok=True)
    rng = random.Random(a.seed)
    muts = gen_mutants("/repo", a.files.split(","), rng, a.per_file)[: a.max]
    print(f"{len(muts)} candidate mutants", flush=True)
    n = {"no-compile": 0, "killed-by-suite": 0, "caught": 0, "survivor": 0, "other": 0}
    with open(os.path.join(a.out, "results.jsonl"), "a") as rf, cf.ThreadPoolExecutor(a.jobs) as ex:
        futs = [ex.submit(evaluate, i, m, a.out) for i, m in enumerate(muts)]
        for fu in cf.as_completed(futs):
            r = fu.result()
            rf.write(json.dumps(r, ensure_ascii=False) + "\n")
            rf.flush()
            st = r.get("status")
            if st == "survived-suite":
                k = "caught" if r.get("caught") else "survivor"
            elif st in n:
                k = st
            else:
                k = "other"
            n[k] += 1
            if k == "survivor":
                print(f"SURVIVOR #{r['idx']} {r['file']}:{r['line']} [{r['op']}] {r['old']!r} -> {r['new']!r} checks={r['checks']}", flush=True)
    print("summary:", n, flush=True)


if __name__ == "__main__":
    main()
