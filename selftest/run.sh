#!/bin/bash
# Mutation self-test (not a MANIFEST command): selftest/run.sh [pattern]
# For every selftest/mutants/<PROP>-<name>.diff: apply to a scratch worktree of /repo, require that the
# pinned suite still passes there (otherwise the change is not one the tests miss) and that the
# property's quick check reports a VIOLATION against that copy. Prints one line per mutant.
cd "$(dirname "${BASH_SOURCE[0]}")/.."
pat="${1:-}"
ls selftest/mutants/*${pat}*.diff | xargs -P "${PAR:-4}" -I{} bash -c 'f={}; id=$(basename $f | cut -d- -f1); r=$(tools/seedcheck.sh $f $id 2>&1 | tr "\n" " "); echo "$(basename $f .diff): $r" | cut -c1-330'
