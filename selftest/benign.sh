#!/bin/bash
# Negative controls (not a MANIFEST command): selftest/benign.sh [pattern]
# Each selftest/benign/*.diff is a behaviour-preserving refactoring of the repository (other data
# structures, other formats of things no property mentions). Applied to a scratch worktree, the pinned
# suite must pass and EVERY quick check must stay silent (exit 0).
cd "$(dirname "${BASH_SOURCE[0]}")/.."
export GOFLAGS=-mod=mod GOPROXY=off GOSUMDB=off GOTOOLCHAIN=local
ids=$(python3 -c "import json; print(' '.join(c['property_id'] for c in json.load(open('MANIFEST.json'))['checks']))")
for f in $(ls $PWD/selftest/benign/*${1:-}*.diff); do
  WT="$(mktemp -d /tmp/benign.XXXXXX)"; rmdir "$WT"; OUT="$(mktemp -d /tmp/benignout.XXXXXX)"
  git -C /repo worktree add -q --detach "$WT" HEAD
  if ! git -C "$WT" apply "$f"; then echo "$(basename $f): STALE (does not apply)"; git -C /repo worktree remove --force "$WT"; continue; fi
  if ! (cd "$WT" && go build ./... && go test -vet=off -count=1 ./... >"$OUT/suite.log" 2>&1); then echo "$(basename $f): suite FAILS (not a valid control)"; git -C /repo worktree remove --force "$WT"; rm -rf "$OUT"; continue; fi
  bad=$(echo $ids | tr ' ' '\n' | xargs -P "${PAR:-5}" -I{} bash -c 'VERIF_REPO='"$WT"' VERIF_OUT='"$OUT"'/{} ./run.sh {} quick > '"$OUT"'/{}.log 2>&1; c=$?; [ $c != 0 ] && echo "{}:exit=$c($(grep -a -m1 "sig=\|INCONCLUSIVE" '"$OUT"'/{}.log | cut -c1-120))"' | tr '\n' ' ')
  if [ -z "$bad" ]; then echo "$(basename $f): silent (all checks exit 0)"; else echo "$(basename $f): FALSE ALARM $bad"; fi
  git -C /repo worktree remove --force "$WT"; rm -rf "$WT" "$OUT"
done
