// libinject applies the injector's library entry points (file.ParseFile + file.WriteFile) to the files
// named on the command line, one after the other, the way the repository's own main.go does. It is a
// separate program (not part of the monitor binary) so that a change to the signatures of the `file`
// package — an internal package of the CLI — only takes this one route away instead of stopping every
// injector monitor from building: run.sh builds it if it can and the monitors fall back to `-f`.
// Output: one line "panic in library call on <name>: <value>" per recovered panic. Exit status 0.
package main

import (
	"fmt"
	"os"
	"path/filepath"

	"gitee.com/xuesongtao/protoc-go-valid/file"
)

func main() {
	for _, p := range os.Args[1:] {
		func() {
			defer func() {
				if x := recover(); x != nil {
					fmt.Printf("panic in library call on %s: %v\n", filepath.Base(p), x)
				}
			}()
			areas, err := file.ParseFile(p)
			if err != nil {
				return
			}
			_ = file.WriteFile(p, areas)
		}()
	}
}
