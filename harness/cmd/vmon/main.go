// vmon: runtime monitors for protoc-go-valid. See /verif/DESIGN.md.
package main

import (
	"encoding/json"
	"flag"
	"fmt"
	"os"
	"strings"

	"vmon/internal/core"
	"vmon/internal/props"
)

type kvList map[string]string

func (k kvList) String() string { return "" }
func (k kvList) Set(s string) error {
	i := strings.Index(s, "=")
	if i < 0 {
		k[s] = ""
	} else {
		k[s[:i]] = s[i+1:]
	}
	return nil
}

func main() {
	if len(os.Args) < 2 {
		fmt.Fprintln(os.Stderr, "usage: vmon run|child|replay|list ...")
		os.Exit(core.ExitInconclusive)
	}
	exe, _ := os.Executable()
	switch os.Args[1] {
	case "gentypes":
		fmt.Print(props.GenNamedTypesSource(20260929, 240))
	case "list":
		for _, id := range core.AllIDs() {
			fmt.Println(id)
		}
	case "run":
		fs := flag.NewFlagSet("run", flag.ExitOnError)
		prop := fs.String("prop", "", "")
		tier := fs.String("tier", "quick", "")
		seed := fs.Int64("seed", 1, "")
		cli := fs.String("cli", "", "")
		verif := fs.String("verif", "/verif", "")
		tmp := fs.String("tmp", "", "")
		fs.Parse(os.Args[2:])
		if *tmp == "" {
			d, err := os.MkdirTemp("", "vmon")
			if err != nil {
				fmt.Println("INCONCLUSIVE cannot create temp dir")
				os.Exit(core.ExitInconclusive)
			}
			*tmp = d
			defer os.RemoveAll(d)
		}
		code := core.RunParent(*prop, core.Tier(*tier), *seed, exe, *cli, *verif, *tmp)
		os.RemoveAll(*tmp)
		os.Exit(code)
	case "child":
		fs := flag.NewFlagSet("child", flag.ExitOnError)
		prop := fs.String("prop", "", "")
		tier := fs.String("tier", "quick", "")
		seed := fs.Int64("seed", 1, "")
		shard := fs.Int("shard", 0, "")
		of := fs.Int("of", 1, "")
		out := fs.String("out", "", "")
		work := fs.String("work", "", "")
		journal := fs.String("journal", "", "")
		mode := fs.String("mode", "shard", "")
		cli := fs.String("cli", "", "")
		args := kvList{}
		fs.Var(args, "arg", "")
		fs.Parse(os.Args[2:])
		c := &core.Ctx{Prop: *prop, Tier: core.Tier(*tier), Seed: *seed, Shard: *shard, Of: *of, Mode: *mode, Args: args, WorkDir: *work, Exe: exe, CLI: *cli}
		if *journal != "" {
			c.OpenJournal(*journal)
		}
		os.Exit(core.RunChild(c, *out))
	case "replay":
		if len(os.Args) < 3 {
			fmt.Fprintln(os.Stderr, "usage: vmon replay <file>")
			os.Exit(core.ExitInconclusive)
		}
		data, err := os.ReadFile(os.Args[2])
		if err != nil {
			fmt.Fprintln(os.Stderr, err)
			os.Exit(core.ExitInconclusive)
		}
		var w struct {
			Property string          `json:"property"`
			Sig      string          `json:"sig"`
			Detail   string          `json:"detail"`
			Replay   json.RawMessage `json:"replay"`
		}
		if err := json.Unmarshal(data, &w); err != nil {
			fmt.Fprintln(os.Stderr, err)
			os.Exit(core.ExitInconclusive)
		}
		fmt.Printf("property=%s sig=%s\nrecorded: %s\n", w.Property, w.Sig, w.Detail)
		p := core.Lookup(w.Property)
		if p != nil && p.Replay != nil {
			fmt.Println("re-executed:", p.Replay(w.Replay))
		} else {
			fmt.Println("(no automatic re-execution for this property; the witness above is self-contained)")
		}
	default:
		fmt.Fprintln(os.Stderr, "unknown subcommand")
		os.Exit(core.ExitInconclusive)
	}
}
