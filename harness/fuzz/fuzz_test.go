// Package fuzz holds native Go fuzz targets used as a coverage-guided workload generator for C13
// (thorough tier): the oracle is "returns normally" — any panic fails the target.
package fuzz

import (
	"bytes"
	"go/parser"
	"go/token"
	"os"
	"path/filepath"
	"reflect"
	"testing"

	"gitee.com/xuesongtao/protoc-go-valid/file"
	"gitee.com/xuesongtao/protoc-go-valid/valid"
)

type fzInner struct {
	A string
	N int
}

type fzT struct {
	S   string
	I   int64
	U   uint8
	F   float64
	B   bool
	L   []string
	LI  []int
	In  fzInner
	P   *fzInner
	Ps  []*fzInner
	M   map[string]*fzInner
	Any interface{}
}

var seeds = []string{"required", "to=1~3", "in=(a/b)", "re='^a$'", "datetime='/, ,:'", "ints=-", "either=1", "botheq=2", "exist", "unique", "json", "prefix=a|msg", "include=('a,b'/c)", "re='\\''", "oto=5~1|必填"}

func FuzzVar(f *testing.F) {
	for _, s := range seeds {
		f.Add(s, "v", int64(3), 1.5)
	}
	f.Fuzz(func(t *testing.T, rule, sv string, iv int64, fv float64) {
		_ = valid.Var(sv, rule)
		_ = valid.Var(iv, rule)
		_ = valid.Var(uint16(iv), rule)
		_ = valid.Var(fv, rule)
		_ = valid.Var(float32(fv), rule)
		_ = valid.Var([]string{sv, sv}, rule)
		_ = valid.Var([]int64{iv}, rule)
		_ = valid.Var(iv%2 == 0, rule)
	})
}

func FuzzStruct(f *testing.F) {
	for _, s := range seeds {
		f.Add(s, s, "v", int64(3), 1.5, uint8(0))
	}
	f.Fuzz(func(t *testing.T, r1, r2, sv string, iv int64, fv float64, shape uint8) {
		v := &fzT{S: sv, I: iv, U: uint8(iv), F: fv, B: shape&1 == 1, L: []string{sv}, LI: []int{int(iv)}, In: fzInner{A: sv}}
		if shape&2 != 0 {
			v.P = &fzInner{N: int(iv)}
		}
		if shape&4 != 0 {
			v.Ps = []*fzInner{nil, {A: sv}}
		}
		if shape&8 != 0 {
			v.M = map[string]*fzInner{"k": nil, sv: {}}
		}
		if shape&16 != 0 {
			v.Any = sv
		}
		rm := valid.RM{"S": r1, "I": r2, "U": r1, "F": r2, "B": r1, "L": r2, "LI": r1, "In": r2, "P": r1, "Ps": r2, "M": r1, "Any": r2}
		_ = valid.Struct(v, rm)
		_ = valid.NestedStructForRule(v, map[interface{}]valid.RM{&fzInner{}: {"A": r1, "N": r2}, &fzT{}: {"In": "exist", "P": "exist", "Ps": "exist", "M": "required", "S": r2}})
	})
}

func FuzzMapUrl(f *testing.F) {
	for _, s := range seeds {
		f.Add(s, "http://x?a=1&b=2", "k")
	}
	f.Fuzz(func(t *testing.T, rule, u, key string) {
		rm := valid.RM{key: rule, "a": rule, "b": "either=1", "c": "either=1"}
		_ = valid.Url(u, rm)
		_ = valid.Map(map[string]string{key: u, "a": u, "b": ""}, rm)
		_ = valid.Map(map[string]interface{}{key: u, "a": len(u), "b": nil}, rm)
		_ = valid.Map([]map[string]int{{key: len(u)}, nil}, rm)
	})
}

func FuzzText(f *testing.F) {
	for _, s := range seeds {
		f.Add(s)
	}
	f.Add(`"T.A" input "", explain: x; "T.B" input "1", 说明: 必填; valid "q" is not exist`)
	f.Fuzz(func(t *testing.T, s string) {
		for _, p := range valid.ValidNamesSplit(s) {
			valid.ParseValidNameKV(p)
		}
		if len(s) > 0 {
			valid.ValidNamesSplit(s, s[0])
		}
		_ = valid.GetOnlyExplainErr(s)
		_ = valid.GenValidKV(s, s, s)
		_ = valid.NewRule().Set(s, s).Get(s)
		_ = valid.GetTimeFmt(int8(len(s)), s, s, s, s)
		_ = reflect.TypeOf(s)
	})
}

var injectSeeds = []string{
	"package pb\n\ntype A struct {\n\tName string `json:\"name\"` // 姓名 @tag valid:\"required\"\n\tAge int32 `json:\"age\" valid:\"x\"` // @tag valid:\"to=1~150\" form:\"age\"\n}\n",
	"package pb\n\ntype A struct {\n\tName string // @tag valid:\"required\"\n\tB struct{ Y int `json:\"y\"` } `json:\"y\"` // @tag valid:\"exist\"\n}\n\ntype (\n\tG struct {\n\t\tX int `json:\"x\"` // @tag a:\"b\"\n\t}\n)\n",
	"package pb\n\ntype A struct {\n\tN string \"json:\\\"n\\\"\" // @tag required\n\tE string `` // see the @tag docs\n\tM string `json:\"m\"` /* @tag re:\"'^a$1'\" */\n}\n",
}

// FuzzInject: the injector's library entry points on arbitrary bytes named *.go. Oracle (C19): no
// panic; input that does not parse is left byte-identical; input that parses still parses afterwards.
func FuzzInject(f *testing.F) {
	for _, s := range injectSeeds {
		f.Add([]byte(s))
	}
	dir := f.TempDir()
	f.Fuzz(func(t *testing.T, src []byte) {
		p := filepath.Join(dir, "in.go")
		if err := os.WriteFile(p, src, 0o644); err != nil {
			t.Skip()
		}
		_, perr := parser.ParseFile(token.NewFileSet(), p, src, parser.ParseComments)
		areas, err := file.ParseFile(p)
		if err == nil {
			_ = file.WriteFile(p, areas)
		}
		out, rerr := os.ReadFile(p)
		if rerr != nil {
			t.Fatalf("file disappeared: %v", rerr)
		}
		if perr != nil && !bytes.Equal(out, src) {
			t.Fatalf("input that does not parse was modified")
		}
		if perr == nil {
			if _, e := parser.ParseFile(token.NewFileSet(), p, out, parser.ParseComments); e != nil {
				t.Fatalf("output no longer parses: %v", e)
			}
		}
	})
}
