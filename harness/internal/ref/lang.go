package ref

import (
	"math"
	"reflect"
	"regexp"
	"strconv"
	"strings"
	"unicode/utf8"
)

// Independent recognisers for the format/content rules (C05). Written from the README table and
// the doc comments, without regexp and without time.Parse. Three-valued: where the documentation
// does not fix membership the answer is Unspec and the case is skipped (and counted).

type Tri int

const (
	In     Tri = iota // value satisfies the rule
	Out               // rule violated
	Unspec            // documentation does not decide
)

func (t Tri) String() string { return [...]string{"in", "out", "unspecified"}[t] }

func isDigit(c byte) bool { return c >= '0' && c <= '9' }
func isWord(c byte) bool {
	return c == '_' || isDigit(c) || (c >= 'a' && c <= 'z') || (c >= 'A' && c <= 'Z')
}
func allDigits(s string) bool {
	if s == "" {
		return false
	}
	for i := 0; i < len(s); i++ {
		if !isDigit(s[i]) {
			return false
		}
	}
	return true
}

func tri(b bool) Tri {
	if b {
		return In
	}
	return Out
}

// Phone: 11 ASCII digits, first 1, second 3..9.
func Phone(s string) Tri {
	return tri(len(s) == 11 && allDigits(s) && s[0] == '1' && s[1] >= '3' && s[1] <= '9')
}

// IDCard: 15 digits | 18 digits | 17 digits + X|x.
func IDCard(s string) Tri {
	switch len(s) {
	case 15:
		return tri(allDigits(s))
	case 18:
		return tri(allDigits(s[:17]) && (isDigit(s[17]) || s[17] == 'X' || s[17] == 'x'))
	}
	return Out
}

// Email: word(sep word)*@word([-.]word)*.word([-.]word)* over ASCII word characters.
func Email(s string) Tri {
	unspec := false
	for i := 0; i < len(s); i++ {
		c := s[i]
		switch {
		case isWord(c), c == '.', c == '+', c == '-', c == '@':
		case strings.IndexByte("!#$%&'*/=?^`{|}~", c) >= 0:
			unspec = true // RFC 5322 atext the documentation does not speak about
		default:
			return Out
		}
	}
	if strings.Count(s, "@") != 1 {
		if unspec {
			return Unspec
		}
		return Out
	}
	if unspec {
		return Unspec
	}
	at := strings.IndexByte(s, '@')
	local, dom := s[:at], s[at+1:]
	runs := func(p string, seps string) (n int, sepsSeen string, ok bool) {
		// word runs separated by single separators
		if p == "" {
			return 0, "", false
		}
		inRun := false
		for i := 0; i < len(p); i++ {
			c := p[i]
			if isWord(c) {
				if !inRun {
					n++
					inRun = true
				}
				continue
			}
			if strings.IndexByte(seps, c) < 0 || !inRun {
				return 0, "", false
			}
			inRun = false
			sepsSeen += string(c)
		}
		return n, sepsSeen, inRun
	}
	if _, _, ok := runs(local, "-+."); !ok {
		return Out
	}
	n, seen, ok := runs(dom, "-.")
	return tri(ok && n >= 2 && strings.Contains(seen, "."))
}

// IntStr: one or more ASCII digits. A sign or exponent is not decided by the documentation.
func IntStr(s string) Tri {
	if allDigits(s) {
		return In
	}
	if len(s) > 1 && (s[0] == '-' || s[0] == '+') && allDigits(s[1:]) {
		return Unspec
	}
	return Out
}

// FloatStr: digits '.' digits.
func FloatStr(s string) Tri {
	if i := strings.IndexByte(s, '.'); i > 0 && allDigits(s[:i]) && allDigits(s[i+1:]) {
		return In
	}
	// signed / exponent forms of a number: not decided
	t := s
	if len(t) > 0 && (t[0] == '-' || t[0] == '+') {
		t = t[1:]
	}
	if _, err := strconv.ParseFloat(t, 64); err == nil && t != "" && (isDigit(t[0]) || t[0] == '.') && strings.ContainsAny(s, "+-eE.") && !allDigits(s) {
		if strings.ContainsAny(s, "eE+-") || strings.HasPrefix(t, ".") || strings.HasSuffix(t, ".") {
			return Unspec
		}
	}
	return Out
}

// ---- IP

func ipv4Octets(s string) (ok bool, leadingZero bool) {
	parts := strings.Split(s, ".")
	if len(parts) != 4 {
		return false, false
	}
	for _, p := range parts {
		if !allDigits(p) {
			return false, false
		}
		t := strings.TrimLeft(p, "0")
		if t == "" {
			t = "0"
		}
		if len(t) > 3 {
			return false, false
		}
		if n, _ := strconv.Atoi(t); n > 255 {
			return false, false
		}
		if t != p {
			leadingZero = true
		}
	}
	return true, leadingZero
}

// IPv4Text: dotted quad, octets 0..255. Leading zeros are not decided.
func IPv4Text(s string) Tri {
	ok, lz := ipv4Octets(s)
	if !ok {
		return Out
	}
	if lz {
		return Unspec
	}
	return In
}

// ipv6Parse: RFC 4291 text form. Returns ok and whether it is an IPv4-mapped address and
// whether an embedded IPv4 tail had leading zeros (unspecified).
func ipv6Parse(s string) (ok, mapped, unspec bool) {
	if strings.Contains(s, "%") {
		// zone suffix: not decided if the rest is an address
		base := s[:strings.Index(s, "%")]
		if o, _, _ := ipv6Parse(base); o && len(s) > len(base)+1 {
			return false, false, true
		}
		return false, false, false
	}
	if !strings.Contains(s, ":") {
		return false, false, false
	}
	var groups []uint16
	ellipsis := -1
	rest := s
	if strings.HasPrefix(rest, "::") {
		ellipsis = 0
		rest = rest[2:]
		if rest == "" {
			return true, false, false
		}
	} else if strings.HasPrefix(rest, ":") {
		return false, false, false
	}
	for rest != "" {
		// embedded IPv4 tail?
		if strings.Contains(rest, ".") && !strings.Contains(rest, ":") {
			o, lz := ipv4Octets(rest)
			if !o {
				return false, false, false
			}
			if lz {
				unspec = true
			}
			parts := strings.Split(rest, ".")
			var b [4]int
			for i, p := range parts {
				b[i], _ = strconv.Atoi(p)
			}
			groups = append(groups, uint16(b[0]<<8|b[1]), uint16(b[2]<<8|b[3]))
			rest = ""
			break
		}
		j := 0
		v := 0
		for j < len(rest) && j < 4 {
			c := rest[j]
			var d int
			switch {
			case isDigit(c):
				d = int(c - '0')
			case c >= 'a' && c <= 'f':
				d = int(c-'a') + 10
			case c >= 'A' && c <= 'F':
				d = int(c-'A') + 10
			default:
				d = -1
			}
			if d < 0 {
				break
			}
			v = v<<4 | d
			j++
		}
		if j == 0 {
			return false, false, false
		}
		groups = append(groups, uint16(v))
		rest = rest[j:]
		if rest == "" {
			break
		}
		if rest[0] != ':' {
			return false, false, false
		}
		rest = rest[1:]
		if rest == "" {
			return false, false, false // trailing single colon
		}
		if rest[0] == ':' {
			if ellipsis >= 0 {
				return false, false, false
			}
			ellipsis = len(groups)
			rest = rest[1:]
			if rest == "" {
				break
			}
		}
	}
	if len(groups) > 8 {
		return false, false, false
	}
	if ellipsis < 0 {
		if len(groups) != 8 {
			return false, false, false
		}
	} else {
		if len(groups) >= 8 {
			return false, false, false
		}
		full := make([]uint16, 0, 8)
		full = append(full, groups[:ellipsis]...)
		for i := 0; i < 8-len(groups); i++ {
			full = append(full, 0)
		}
		full = append(full, groups[ellipsis:]...)
		groups = full
	}
	mapped = groups[0] == 0 && groups[1] == 0 && groups[2] == 0 && groups[3] == 0 && groups[4] == 0 && groups[5] == 0xffff
	return true, mapped, unspec
}

// IPRule judges ip / ipv4 / ipv6.
func IPRule(key, s string) Tri {
	v4 := IPv4Text(s)
	ok6, mapped, un6 := ipv6Parse(s)
	switch key {
	case "ip":
		switch {
		case v4 == In || (ok6 && !un6):
			return In
		case v4 == Unspec || un6:
			return Unspec
		}
		return Out
	case "ipv4":
		switch {
		case v4 == In:
			return In
		case v4 == Unspec || un6 || (ok6 && mapped):
			return Unspec
		}
		return Out
	case "ipv6":
		switch {
		case un6 || (ok6 && mapped):
			return Unspec
		case ok6:
			return In
		case v4 == Unspec:
			return Unspec
		}
		return Out
	}
	panic("IPRule: " + key)
}

// ---- dates

func daysIn(y, m int) int {
	switch m {
	case 2:
		if y%4 == 0 && (y%100 != 0 || y%400 == 0) {
			return 29
		}
		return 28
	case 4, 6, 9, 11:
		return 30
	}
	return 31
}

// DateLike recognises fixed-width digit fields YYYY[s1]MM[s1]DD[s2]HH[s3]MM[s3]SS.
// level: 1 year, 2 year+month, 3 date, 6 datetime.
func DateLike(s string, level int, s1, s2, s3 string) Tri {
	pos := 0
	num := func(w int) (int, bool) {
		if pos+w > len(s) || !allDigits(s[pos:pos+w]) {
			return 0, false
		}
		n, _ := strconv.Atoi(s[pos : pos+w])
		pos += w
		return n, true
	}
	lit := func(l string) bool {
		if !strings.HasPrefix(s[pos:], l) {
			return false
		}
		pos += len(l)
		return true
	}
	y, ok := num(4)
	if !ok {
		return Out
	}
	if level >= 2 {
		if !lit(s1) {
			return Out
		}
		m, ok := num(2)
		if !ok || m < 1 || m > 12 {
			return Out
		}
		if level >= 3 {
			if !lit(s1) {
				return Out
			}
			d, ok := num(2)
			if !ok || d < 1 || d > daysIn(y, m) {
				return Out
			}
		}
	}
	if level >= 6 {
		if !lit(s2) {
			return Out
		}
		h, ok := num(2)
		if !ok || h > 23 {
			return Out
		}
		if !lit(s3) {
			return Out
		}
		mi, ok := num(2)
		if !ok || mi > 59 {
			return Out
		}
		if !lit(s3) {
			return Out
		}
		se, ok := num(2)
		if !ok || se > 59 {
			return Out
		}
	}
	return tri(pos == len(s))
}

// ---- JSON (RFC 8259)

type jsonP struct {
	s      string
	i      int
	unspec bool
}

func (p *jsonP) ws() {
	for p.i < len(p.s) && (p.s[p.i] == ' ' || p.s[p.i] == '\t' || p.s[p.i] == '\n' || p.s[p.i] == '\r') {
		p.i++
	}
}

func (p *jsonP) value(depth int) bool {
	if depth > 9000 {
		p.unspec = true
		return false
	}
	p.ws()
	if p.i >= len(p.s) {
		return false
	}
	switch c := p.s[p.i]; {
	case c == '{':
		p.i++
		p.ws()
		if p.i < len(p.s) && p.s[p.i] == '}' {
			p.i++
			return true
		}
		for {
			p.ws()
			if !p.str() {
				return false
			}
			p.ws()
			if p.i >= len(p.s) || p.s[p.i] != ':' {
				return false
			}
			p.i++
			if !p.value(depth + 1) {
				return false
			}
			p.ws()
			if p.i >= len(p.s) {
				return false
			}
			if p.s[p.i] == ',' {
				p.i++
				continue
			}
			if p.s[p.i] == '}' {
				p.i++
				return true
			}
			return false
		}
	case c == '[':
		p.i++
		p.ws()
		if p.i < len(p.s) && p.s[p.i] == ']' {
			p.i++
			return true
		}
		for {
			if !p.value(depth + 1) {
				return false
			}
			p.ws()
			if p.i >= len(p.s) {
				return false
			}
			if p.s[p.i] == ',' {
				p.i++
				continue
			}
			if p.s[p.i] == ']' {
				p.i++
				return true
			}
			return false
		}
	case c == '"':
		return p.str()
	case c == '-' || isDigit(c):
		return p.num()
	default:
		for _, w := range []string{"true", "false", "null"} {
			if strings.HasPrefix(p.s[p.i:], w) {
				p.i += len(w)
				return true
			}
		}
		return false
	}
}

func (p *jsonP) str() bool {
	if p.i >= len(p.s) || p.s[p.i] != '"' {
		return false
	}
	p.i++
	for p.i < len(p.s) {
		c := p.s[p.i]
		switch {
		case c == '"':
			p.i++
			return true
		case c == '\\':
			if p.i+1 >= len(p.s) {
				return false
			}
			e := p.s[p.i+1]
			if strings.IndexByte(`"\/bfnrt`, e) >= 0 {
				p.i += 2
				continue
			}
			if e == 'u' {
				if p.i+6 > len(p.s) {
					return false
				}
				for _, h := range []byte(p.s[p.i+2 : p.i+6]) {
					if !(isDigit(h) || (h >= 'a' && h <= 'f') || (h >= 'A' && h <= 'F')) {
						return false
					}
				}
				p.i += 6
				continue
			}
			return false
		case c < 0x20:
			return false
		case c >= 0x80:
			r, sz := utf8.DecodeRuneInString(p.s[p.i:])
			if r == utf8.RuneError && sz == 1 {
				p.unspec = true // invalid UTF-8 inside a string
			}
			p.i += sz
		default:
			p.i++
		}
	}
	return false
}

func (p *jsonP) num() bool {
	if p.s[p.i] == '-' {
		p.i++
	}
	if p.i >= len(p.s) {
		return false
	}
	if p.s[p.i] == '0' {
		p.i++
	} else if p.s[p.i] >= '1' && p.s[p.i] <= '9' {
		for p.i < len(p.s) && isDigit(p.s[p.i]) {
			p.i++
		}
	} else {
		return false
	}
	if p.i < len(p.s) && p.s[p.i] == '.' {
		p.i++
		if p.i >= len(p.s) || !isDigit(p.s[p.i]) {
			return false
		}
		for p.i < len(p.s) && isDigit(p.s[p.i]) {
			p.i++
		}
	}
	if p.i < len(p.s) && (p.s[p.i] == 'e' || p.s[p.i] == 'E') {
		p.i++
		if p.i < len(p.s) && (p.s[p.i] == '+' || p.s[p.i] == '-') {
			p.i++
		}
		if p.i >= len(p.s) || !isDigit(p.s[p.i]) {
			return false
		}
		for p.i < len(p.s) && isDigit(p.s[p.i]) {
			p.i++
		}
	}
	return true
}

// JSON recognises an RFC 8259 text.
func JSON(s string) Tri {
	p := &jsonP{s: s}
	ok := p.value(0)
	if ok {
		p.ws()
		ok = p.i == len(p.s)
	}
	if p.unspec {
		return Unspec
	}
	return tri(ok)
}

// ---- options (in / include) and canonical rendering

// SplitQuoted splits s on sep outside single-quoted segments.
func SplitQuoted(s string, sep byte) []string {
	if s == "" {
		return nil
	}
	var out []string
	cur := []byte{}
	inQ := false
	for i := 0; i < len(s); i++ {
		c := s[i]
		if c == '\'' {
			inQ = !inQ
			cur = append(cur, c)
			continue
		}
		if c == sep && !inQ {
			out = append(out, string(cur))
			cur = cur[:0]
			continue
		}
		cur = append(cur, c)
	}
	if len(cur) > 0 {
		out = append(out, string(cur))
	}
	return out
}

// Options parses "(a/b/'c/d')" into literal options.
func Options(arg string) ([]string, bool) {
	l := strings.Index(arg, "(")
	r := strings.LastIndex(arg, ")")
	if l < 0 || r < 0 || r < l {
		return nil, false
	}
	var out []string
	for _, o := range SplitQuoted(arg[l+1:r], '/') {
		out = append(out, strings.Trim(o, "'"))
	}
	return out, true
}

// Canon is the canonical rendering of a scalar: shortest decimal for numbers (at the value's
// own width), base 10 integers, the string itself. ok=false for other kinds.
func Canon(v reflect.Value) (string, bool) {
	switch v.Kind() {
	case reflect.String:
		return v.String(), true
	case reflect.Int, reflect.Int8, reflect.Int16, reflect.Int32, reflect.Int64:
		return strconv.FormatInt(v.Int(), 10), true
	case reflect.Uint, reflect.Uint8, reflect.Uint16, reflect.Uint32, reflect.Uint64:
		return strconv.FormatUint(v.Uint(), 10), true
	case reflect.Float32:
		return strconv.FormatFloat(v.Float(), 'f', -1, 32), true
	case reflect.Float64:
		return strconv.FormatFloat(v.Float(), 'f', -1, 64), true
	case reflect.Bool:
		return strconv.FormatBool(v.Bool()), true
	}
	return "", false
}

// ReExtract extracts the pattern a re rule denotes: the text between the first quote and the
// next quote that is not preceded by a backslash.
func ReExtract(ruleText string) (pattern string, rest string, ok bool) {
	i := strings.IndexByte(ruleText, '\'')
	if i < 0 {
		return "", "", false
	}
	j := i + 1
	for j < len(ruleText) {
		if ruleText[j] == '\'' && ruleText[j-1] != '\\' {
			if j == i+1 {
				return "", "", false // empty pattern: outside the documented form
			}
			return ruleText[i+1 : j], ruleText[j+1:], true
		}
		j++
	}
	return "", "", false
}

// ---- rule text and dispatch

// SplitRule is the documented reading of one rule: key[=value][|message]. For re the value is
// the quoted pattern (which may itself contain '|').
func SplitRule(text string) (key, arg, msg string, hasMsg bool) {
	eq := strings.IndexByte(text, '=')
	bar := strings.IndexByte(text, '|')
	if eq < 0 || (bar >= 0 && bar < eq) {
		if bar < 0 {
			return text, "", "", false
		}
		return text[:bar], "", text[bar+1:], true
	}
	key = text[:eq]
	rest := text[eq+1:]
	if key == "re" {
		if pat, after, ok := ReExtract(text); ok {
			arg = "'" + pat + "'"
			if strings.HasPrefix(after, "|") {
				return key, arg, after[1:], true
			}
			return key, arg, "", false
		}
	}
	if b := strings.IndexByte(rest, '|'); b >= 0 {
		return key, rest[:b], rest[b+1:], true
	}
	return key, rest, "", false
}

// FSOracle tells what the harness itself created at a path.
type FSOracle func(path string) (known bool, exists bool, isDir bool)

const safeSepChars = "-/.: _"

func safeSep(s string) bool {
	for i := 0; i < len(s); i++ {
		if strings.IndexByte(safeSepChars, s[i]) < 0 {
			return false
		}
	}
	return true
}

// DateSeps returns the three separators a year2month/date/datetime argument denotes.
func DateSeps(key, arg string) (s1, s2, s3 string, ok bool) {
	s1, s2, s3 = "-", " ", ":"
	if arg == "" {
		return s1, s2, s3, true
	}
	a := strings.Trim(arg, "'")
	if key != "datetime" {
		// the one separator of year2month / date: protected by quotes it may be (or contain) a comma
		if strings.HasPrefix(arg, "'") && strings.HasSuffix(arg, "'") && len(arg) >= 2 {
			return a, s2, s3, safeSep(strings.ReplaceAll(a, ",", "-"))
		}
		return a, s2, s3, safeSep(a)
	}
	parts := strings.Split(a, ",")
	if len(parts) > 3 {
		return "", "", "", false
	}
	seps := []*string{&s1, &s2, &s3}
	for i, p := range parts {
		*seps[i] = p
	}
	return s1, s2, s3, safeSep(s1) && safeSep(s2) && safeSep(s3)
}

func parseInt64(s string) (int64, bool) {
	n, err := strconv.ParseInt(s, 10, 64)
	return n, err == nil
}

// JudgeRule decides whether non-empty value v satisfies rule `key=arg` (In), violates it (Out), or
// whether the documentation leaves it open / the rule is not applicable to the kind (Unspec).
func JudgeRule(key, arg string, v reflect.Value, fs FSOracle) Tri {
	if IsSizeRule(key) {
		m, ok := Measure(v)
		if !ok {
			return Unspec
		}
		var lo, hi int64
		switch key {
		case "to", "oto":
			p := strings.Split(arg, "~")
			if len(p) != 2 {
				return Unspec
			}
			var ok1, ok2 bool
			lo, ok1 = parseInt64(p[0])
			hi, ok2 = parseInt64(p[1])
			if !ok1 || !ok2 {
				return Unspec
			}
		default:
			n, ok := parseInt64(arg)
			if !ok {
				return Unspec
			}
			lo, hi = n, n
		}
		return tri(!SizeViolated(key, lo, hi, m))
	}
	isStr := v.Kind() == reflect.String
	s := ""
	if isStr {
		s = v.String()
	}
	switch key {
	case "phone", "email", "idcard", "ip", "ipv4", "ipv6", "year", "year2month", "date", "datetime", "json", "prefix", "suffix", "re", "file", "dir", "include":
		if !isStr {
			return Unspec
		}
	}
	switch key {
	case "phone":
		return Phone(s)
	case "email":
		return Email(s)
	case "idcard":
		return IDCard(s)
	case "ip", "ipv4", "ipv6":
		return IPRule(key, s)
	case "year":
		if arg != "" {
			return Unspec
		}
		return DateLike(s, 1, "", "", "")
	case "year2month", "date", "datetime":
		s1, s2, s3, ok := DateSeps(key, arg)
		if !ok {
			return Unspec
		}
		return DateLike(s, map[string]int{"year2month": 2, "date": 3, "datetime": 6}[key], s1, s2, s3)
	case "json":
		return JSON(s)
	case "prefix":
		return tri(strings.HasPrefix(s, arg))
	case "suffix":
		return tri(strings.HasSuffix(s, arg))
	case "in":
		opts, ok := Options(arg)
		if !ok {
			return Unspec
		}
		c, ok := Canon(v)
		if !ok {
			return Unspec
		}
		for _, o := range opts {
			if o == c {
				return In
			}
		}
		return Out
	case "include":
		opts, ok := Options(arg)
		if !ok {
			return Unspec
		}
		for _, o := range opts {
			if strings.Contains(s, o) {
				return In
			}
		}
		return Out
	case "int":
		switch v.Kind() {
		case reflect.String:
			return IntStr(s)
		case reflect.Int, reflect.Int8, reflect.Int16, reflect.Int32, reflect.Int64, reflect.Uint, reflect.Uint8, reflect.Uint16, reflect.Uint32, reflect.Uint64:
			return In
		case reflect.Float32, reflect.Float64:
			// "整数型验证": a number with a fractional part is no integer under any reading; whether 2.0 held in a
			// float-typed field counts as one is left open
			if f := v.Float(); f != math.Trunc(f) {
				return Out
			}
			return Unspec
		}
		return Unspec
	case "float":
		switch v.Kind() {
		case reflect.String:
			return FloatStr(s)
		case reflect.Float32, reflect.Float64:
			return In
		}
		return Unspec
	case "ints":
		sep := arg
		if sep == "" {
			sep = ","
		}
		switch v.Kind() {
		case reflect.String:
			res := In
			for _, p := range strings.Split(s, sep) {
				switch IntStr(p) {
				case Out:
					return Out
				case Unspec:
					res = Unspec
				}
			}
			return res
		case reflect.Slice, reflect.Array:
			res := In
			for i := 0; i < v.Len(); i++ {
				e := v.Index(i)
				switch e.Kind() {
				case reflect.String:
					switch IntStr(e.String()) {
					case Out:
						return Out
					case Unspec:
						res = Unspec
					}
				case reflect.Int, reflect.Int8, reflect.Int16, reflect.Int32, reflect.Int64:
					if e.Int() < 0 {
						res = Unspec
					}
				case reflect.Uint, reflect.Uint8, reflect.Uint16, reflect.Uint32, reflect.Uint64:
				default:
					return Unspec
				}
			}
			return res
		}
		return Unspec
	case "unique":
		switch v.Kind() {
		case reflect.String:
			seen := map[string]bool{}
			for _, p := range strings.Split(s, ",") {
				if seen[p] {
					return Out
				}
				seen[p] = true
			}
			return In
		case reflect.Slice, reflect.Array:
			seen := map[string]bool{}
			zero := 0
			for i := 0; i < v.Len(); i++ {
				c, ok := Canon(v.Index(i))
				if !ok {
					return Unspec
				}
				if c == "0" || c == "-0" {
					zero++
				}
				if seen[c] {
					return Out
				}
				seen[c] = true
			}
			if seen["0"] && seen["-0"] {
				return Unspec
			}
			return In
		}
		return Unspec
	case "re":
		// only the pattern extraction is under test: matching is delegated to the (trusted) engine
		if len(arg) < 3 || arg[0] != '\'' || arg[len(arg)-1] != '\'' {
			return Unspec
		}
		re, err := regexp.Compile(arg[1 : len(arg)-1])
		if err != nil {
			return Unspec
		}
		return tri(re.MatchString(s))
	case "file", "dir":
		if fs == nil {
			return Unspec
		}
		known, exists, isDir := fs(s)
		if !known {
			return Unspec
		}
		if key == "file" {
			return tri(exists && !isDir)
		}
		return tri(exists && isDir)
	}
	return Unspec
}
