package ref

import (
	"math/big"
	"reflect"
	"unicode/utf8"
)

// Measure returns the C01 measure of a value as an exact rational: rune count of a string,
// numeric value of a number, length of a slice. ok=false for other kinds.
func Measure(v reflect.Value) (*big.Rat, bool) {
	switch v.Kind() {
	case reflect.String:
		return new(big.Rat).SetInt64(int64(utf8.RuneCountInString(v.String()))), true
	case reflect.Int, reflect.Int8, reflect.Int16, reflect.Int32, reflect.Int64:
		return new(big.Rat).SetInt64(v.Int()), true
	case reflect.Uint, reflect.Uint8, reflect.Uint16, reflect.Uint32, reflect.Uint64:
		return new(big.Rat).SetInt(new(big.Int).SetUint64(v.Uint())), true
	case reflect.Float32, reflect.Float64:
		r := new(big.Rat)
		if r.SetFloat64(v.Float()) == nil {
			return nil, false // NaN / Inf
		}
		return r, true
	case reflect.Slice:
		return new(big.Rat).SetInt64(int64(v.Len())), true
	}
	return nil, false
}

// SizeViolated is the whole C01 oracle: is measure m outside the set the rule states?
// to/ge/le include their bounds, oto/gt/lt exclude them, eq/noeq compare for equality.
// For ge/gt/eq/noeq only lo is used, for le/lt only hi.
func SizeViolated(rule string, lo, hi int64, m *big.Rat) bool {
	l := new(big.Rat).SetInt64(lo)
	h := new(big.Rat).SetInt64(hi)
	switch rule {
	case "to":
		return m.Cmp(l) < 0 || m.Cmp(h) > 0
	case "ge":
		return m.Cmp(l) < 0
	case "le":
		return m.Cmp(h) > 0
	case "oto":
		return m.Cmp(l) <= 0 || m.Cmp(h) >= 0
	case "gt":
		return m.Cmp(l) <= 0
	case "lt":
		return m.Cmp(h) >= 0
	case "eq":
		return m.Cmp(l) != 0
	case "noeq":
		return m.Cmp(l) == 0
	}
	panic("not a size rule: " + rule)
}

// IsSizeRule reports whether key is one of the eight size/comparison rules.
func IsSizeRule(key string) bool {
	switch key {
	case "to", "ge", "le", "oto", "gt", "lt", "eq", "noeq":
		return true
	}
	return false
}
