// Package ref holds the reference models the monitors compare the real code against.
package ref

import (
	"fmt"
	"strings"
)

// LRU is the sequential reference model of a bounded least-recently-used map.
// Entries[0] is the most recently used entry.
type LRU struct {
	Cap     int
	Entries []LRUEntry
	Log     []LRUEntry // removal callback log (evictions and deletions, in order)
}

type LRUEntry struct {
	K interface{}
	V interface{}
}

func NewLRU(c int) *LRU { return &LRU{Cap: c} }

func (m *LRU) find(k interface{}) int {
	for i, e := range m.Entries {
		if e.K == k {
			return i
		}
	}
	return -1
}

func (m *LRU) touch(i int) {
	e := m.Entries[i]
	copy(m.Entries[1:i+1], m.Entries[:i])
	m.Entries[0] = e
}

// Store inserts or replaces; a replaced entry keeps no trace (no callback); overflow evicts the
// least recently used entry (which, for capacity 0, is the entry just inserted).
func (m *LRU) Store(k, v interface{}) {
	if i := m.find(k); i >= 0 {
		m.Entries[i].V = v
		m.touch(i)
		return
	}
	m.Entries = append([]LRUEntry{{k, v}}, m.Entries...)
	if len(m.Entries) > m.Cap {
		last := m.Entries[len(m.Entries)-1]
		m.Entries = m.Entries[:len(m.Entries)-1]
		m.Log = append(m.Log, last)
	}
}

func (m *LRU) Load(k interface{}) (interface{}, bool) {
	i := m.find(k)
	if i < 0 {
		return nil, false
	}
	v := m.Entries[i].V
	m.touch(i)
	return v, true
}

func (m *LRU) Delete(k interface{}) {
	i := m.find(k)
	if i < 0 {
		return
	}
	e := m.Entries[i]
	m.Entries = append(m.Entries[:i], m.Entries[i+1:]...)
	m.Log = append(m.Log, e)
}

func (m *LRU) Len() int { return len(m.Entries) }

// Dump renders the values front to back, one per line (values are rendered with %v).
func (m *LRU) Dump() string {
	parts := make([]string, len(m.Entries))
	for i, e := range m.Entries {
		parts[i] = fmt.Sprintf("%v", e.V)
	}
	return strings.Join(parts, "\n")
}

// Clone copies the model state (not the log).
func (m *LRU) Clone() *LRU {
	n := &LRU{Cap: m.Cap, Entries: append([]LRUEntry(nil), m.Entries...)}
	return n
}

// Key renders the state canonically (for memoisation in the linearizability checker).
func (m *LRU) Key() string {
	var sb strings.Builder
	for _, e := range m.Entries {
		fmt.Fprintf(&sb, "%v=%v;", e.K, e.V)
	}
	return sb.String()
}
