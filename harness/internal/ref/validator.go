package ref

import (
	"fmt"
	"reflect"
	"sort"
	"strings"
	"time"
)

// The reference validator: an independent, deliberately simple (interpretive, no caching, no
// pooling) reading of the README and doc comments. It computes the clauses a validation call is
// expected to return. It never calls into the library.

// Exp is one expected clause.
type Exp struct {
	Kind           string // "input", "group", "config"
	Path           string // "" when the clause carries no path
	Echo           string // expected echoed input (only checked when EchoKnown)
	EchoOK         bool
	Msg            string   // custom message, verbatim (without label); "" => default wording
	Rule           string   // rule key
	Default        string   // substring the default wording must contain ("" => any non-empty text)
	Group          []string // member paths of a group clause, in declaration order
	GroupUnordered bool     // members come from a Go map: their order inside the clause is unspecified
	GKind          string   // "either" | "botheq" | "either-single" | "botheq-single"
	Order          []OrdKey // position in the walk; clauses under different keys of one Go map are unordered
	ConfigS        string   // substring a config clause must contain
}

// OrdKey is one level of the walk position. Map entries have M=true and are mutually unordered.
type OrdKey struct {
	N int
	M bool
	K string
}

// FnModel models a user-supplied validation function: it returns the marker text the function
// writes as explanation (the harness's functions always report, on every non-zero value).
type FnModel struct {
	Marker string
}

type Env struct {
	EmptyTag  bool // the call names the empty tag name explicitly (no field carries rules under it); otherwise "" stands for the default name
	Tag       string
	Scoped    map[reflect.Type]map[string]string // rule set registered for a struct type
	Unscoped  map[string]string                  // rule set without a type: outermost struct only
	Local     map[string]FnModel                 // functions given for this call
	Global    map[string]FnModel                 // globally registered functions
	FS        FSOracle
	Unspec    bool   // set when some rule's verdict is not decided by the documentation
	UnspecWhy string // first reason
	exps      []Exp
	groups    []*grp
}

type grp struct {
	unordered bool
	obj       string
	text      string
	kind      string
	members   []string
	vals      []reflect.Value
}

var builtinKeys = map[string]bool{}

func init() {
	for _, k := range []string{"required", "exist", "either", "botheq", "to", "ge", "le", "oto", "gt", "lt", "eq", "noeq", "in", "include", "phone", "email", "idcard", "year", "year2month", "date", "datetime", "int", "ints", "float", "re", "ip", "ipv4", "ipv6", "unique", "json", "prefix", "suffix", "file", "dir"} {
		builtinKeys[k] = true
	}
}

var timeType = reflect.TypeOf(time.Time{})

func stripPtr(v reflect.Value) reflect.Value {
	for v.IsValid() && v.Kind() == reflect.Ptr {
		v = v.Elem()
	}
	return v
}

func stripPtrType(t reflect.Type) reflect.Type {
	for t.Kind() == reflect.Ptr {
		t = t.Elem()
	}
	return t
}

// Empty is the C03 notion: zero value of the type, or a slice/array/map of length 0.
func Empty(v reflect.Value) bool {
	if !v.IsValid() {
		return true
	}
	switch v.Kind() {
	case reflect.Slice, reflect.Array, reflect.Map:
		if v.Len() == 0 {
			return true
		}
	}
	return v.IsZero()
}

// keyStr: a map key is named as Go prints it by default (fmt's %v: 1e+10 for a float key, March for
// a time.Month key, whatever a key type's String method returns).
func keyStr(k reflect.Value) string {
	return fmt.Sprintf("%v", k.Interface())
}

func joinPath(obj, field string) string {
	switch {
	case obj != "" && field != "":
		return obj + "." + field
	case obj == "" && field != "":
		return field
	}
	return ""
}

func (e *Env) unspec(why string) {
	if !e.Unspec {
		e.Unspec, e.UnspecWhy = true, why
	}
}

// ExpectStruct computes the expected clauses of Struct-like calls on src.
func (e *Env) ExpectStruct(src interface{}) (exps []Exp, entryErr bool) {
	e.exps, e.groups = nil, nil
	if e.Tag == "" && !e.EmptyTag {
		e.Tag = "valid"
	}
	if src == nil {
		return nil, true
	}
	v := stripPtr(reflect.ValueOf(src))
	if !v.IsValid() {
		return nil, true // nil pointer: an entry error
	}
	switch v.Kind() {
	case reflect.Slice, reflect.Array:
		name := ""
		for i := 0; i < v.Len(); i++ {
			if i == 0 {
				name = v.Index(0).Type().String()
			}
			e.object(fmt.Sprintf("%s[%d]", name, i), v.Index(i), false, true, []OrdKey{{N: i}})
		}
	case reflect.Map:
		it := v.MapRange()
		for it.Next() {
			ks := keyStr(it.Key())
			e.object("map["+ks+"]", it.Value(), false, true, []OrdKey{{M: true, K: ks}})
		}
	default:
		e.object("", v, true, false, nil)
	}
	e.finishGroups()
	return e.exps, false
}

// object validates one (possibly pointer-wrapped) struct value found at path.
func (e *Env) object(path string, v reflect.Value, outer, gather bool, ord []OrdKey) {
	v = stripPtr(v)
	if !v.IsValid() {
		return // nil sub-object: skipped silently
	}
	if v.Kind() != reflect.Struct {
		if gather {
			return // elements that are not structs are not validated
		}
		e.exps = append(e.exps, Exp{Kind: "config", Path: "", ConfigS: "is not struct", Order: ord})
		return
	}
	t := v.Type()
	var rules map[string]string
	if outer {
		path = t.Name()
		rules = e.Scoped[t]
		if len(rules) == 0 {
			rules = e.Unscoped
		}
	} else {
		rules = e.Scoped[t]
	}
	for i := 0; i < t.NumField(); i++ {
		f := t.Field(i)
		if f.PkgPath != "" || f.Type == timeType {
			continue // unexported fields and time.Time values are never validated
		}
		text := f.Tag.Get(e.Tag)
		if r, ok := rules[f.Name]; ok && r != "" {
			text = r
		}
		if text == "" {
			continue
		}
		fv := v.Field(i)
		fo := append(append([]OrdKey{}, ord...), OrdKey{N: i})
		for ri, item := range SplitQuoted(text, ',') {
			if item == "" {
				continue
			}
			e.rule(path, f.Name, item, fv, append(append([]OrdKey{}, fo...), OrdKey{N: ri}), true)
		}
	}
}

// rule evaluates one rule item on one field.
func (e *Env) rule(obj, field, item string, fv reflect.Value, ord []OrdKey, structCarrier bool) {
	key, arg, msg, _ := SplitRule(item)
	p := joinPath(obj, field)
	if fn, ok := e.Local[key]; ok {
		if !fv.IsZero() {
			e.exps = append(e.exps, Exp{Kind: "input", Path: p, Msg: fn.Marker, Rule: key, Order: ord})
		}
		return
	}
	if fn, ok := e.Global[key]; ok {
		if !fv.IsZero() {
			e.exps = append(e.exps, Exp{Kind: "input", Path: p, Msg: fn.Marker, Rule: key, Order: ord})
		}
		return
	}
	if !builtinKeys[key] {
		e.exps = append(e.exps, Exp{Kind: "config", Path: cfgPath(obj, field), ConfigS: `valid "` + key + `" is not exist`, Order: ord})
		return
	}
	switch key {
	case "required":
		if Empty(fv) {
			e.exps = append(e.exps, Exp{Kind: "input", Path: p, Echo: "", EchoOK: true, Msg: msg, Rule: key, Default: "it is required", Order: ord})
			return
		}
		if structCarrier {
			e.descendAt(obj, field, fv, false, msg, ord)
		}
	case "exist":
		if !structCarrier {
			e.exps = append(e.exps, Exp{Kind: "config", Path: "", ConfigS: "is no support", Order: ord})
			return
		}
		if fv.IsZero() {
			return
		}
		e.descendAt(obj, field, fv, true, msg, ord)
	case "either", "botheq":
		var g *grp
		for _, x := range e.groups {
			if x.obj == obj && x.text == item {
				g = x
			}
		}
		if g == nil {
			g = &grp{obj: obj, text: item, kind: key}
			e.groups = append(e.groups, g)
		}
		g.members = append(g.members, p)
		g.vals = append(g.vals, fv)
	default:
		if fv.IsZero() {
			return // every other rule skips an empty value
		}
		switch JudgeRule(key, arg, fv, e.FS) {
		case Out:
			x := Exp{Kind: "input", Path: p, Msg: msg, Rule: key, Order: ord}
			// the echo is checked for scalars (json escapes/truncates its echo; float32 is echoed
			// in its 64-bit expansion by some rules and in its 32-bit form by others)
			if c, ok := Canon(fv); ok && key != "json" && fv.Kind() != reflect.Float32 {
				x.Echo, x.EchoOK = c, true
			}
			e.exps = append(e.exps, x)
		case Unspec:
			e.unspec(fmt.Sprintf("rule %q on %s", item, fv.Type()))
		}
	}
}

func cfgPath(obj, field string) string {
	if obj != "" && field != "" {
		return obj + "." + field
	}
	return ""
}

// descendAt: the object path of a sub-object is always parent + "." + field (so a sub-object of an
// anonymous outermost struct is named ".Field"), while a clause on the field itself is named by
// joinPath.
func (e *Env) descendAt(obj, field string, fv reflect.Value, fromExist bool, msg string, ord []OrdKey) {
	before := len(e.exps)
	e.descend(obj+"."+field, fv, fromExist, msg, ord)
	// the "nonsupport exist" clause is a clause on the field itself
	for i := before; i < len(e.exps); i++ {
		if e.exps[i].Rule == "exist" && e.exps[i].Kind == "input" && e.exps[i].Path == obj+"."+field {
			e.exps[i].Path = joinPath(obj, field)
		}
	}
}

// descend: required / exist reach struct-valued sub-objects.
func (e *Env) descend(p string, fv reflect.Value, fromExist bool, msg string, ord []OrdKey) {
	if fv.Type() == timeType {
		return
	}
	inner := stripPtrType(fv.Type())
	switch {
	case fv.Kind() == reflect.Struct || (fv.Kind() == reflect.Ptr && inner.Kind() == reflect.Struct):
		if inner == timeType {
			return
		}
		e.object(p, fv, false, false, ord)
	case fv.Kind() == reflect.Slice || fv.Kind() == reflect.Array:
		for i := 0; i < fv.Len(); i++ {
			e.object(fmt.Sprintf("%s[%d]", p, i), fv.Index(i), false, true, append(append([]OrdKey{}, ord...), OrdKey{N: i}))
		}
	case fv.Kind() == reflect.Map:
		it := fv.MapRange()
		for it.Next() {
			ks := keyStr(it.Key())
			e.object(p+"["+ks+"]", it.Value(), false, true, append(append([]OrdKey{}, ord...), OrdKey{M: true, K: ks}))
		}
	default:
		if fromExist {
			// exist on something that cannot hold sub-objects: a rule-writing problem, reported
			e.exps = append(e.exps, Exp{Kind: "input", Path: p, Msg: msg, Rule: "exist", Default: "nonsupport", Order: ord})
		}
	}
}

// finishGroups appends the group clauses (after all field clauses; mutually unordered).
func (e *Env) finishGroups() {
	for gi, g := range e.groups {
		ord := []OrdKey{{N: 1 << 30}, {M: true, K: fmt.Sprint(gi)}}
		if len(g.members) == 1 {
			e.exps = append(e.exps, Exp{Kind: "config", ConfigS: `"` + g.kind + `" is not ok`, GKind: g.kind + "-single", Order: ord})
			continue
		}
		switch g.kind {
		case "either":
			all := true
			for _, v := range g.vals {
				if !v.IsZero() {
					all = false
				}
			}
			if all {
				e.exps = append(e.exps, Exp{Kind: "group", Group: g.members, GroupUnordered: g.unordered, GKind: "either", Default: "they shouldn't all be empty", Order: ord})
			}
		case "botheq":
			eq := true
			for i := 1; i < len(g.vals); i++ {
				if !reflect.DeepEqual(g.vals[0].Interface(), g.vals[i].Interface()) {
					eq = false
				}
			}
			if !eq {
				e.exps = append(e.exps, Exp{Kind: "group", Group: g.members, GroupUnordered: g.unordered, GKind: "botheq", Default: "they should be equal", Order: ord})
			}
		}
	}
}

// ExpectVar: one rule list on one value (no path).
func (e *Env) ExpectVar(v reflect.Value, rules string) []Exp {
	e.exps, e.groups = nil, nil
	for ri, item := range SplitQuoted(rules, ',') {
		if item == "" {
			continue
		}
		key, _, _, _ := SplitRule(item)
		if key == "either" || key == "botheq" || key == "exist" {
			e.exps = append(e.exps, Exp{Kind: "config", ConfigS: "is no support", Order: []OrdKey{{N: ri}}})
			continue
		}
		e.rule("", "", item, v, []OrdKey{{N: ri}}, false)
	}
	return e.exps
}

// FlatEntry is one (key, value) of a map or URL input.
type FlatEntry struct {
	Key string
	Val reflect.Value
}

// ExpectFlat: map / URL input. prefix is "" or "[i]" (element of a slice of maps); pathFn renders
// the clause path of a key. Keys named in rules but absent from the input violate required.
// unordered: entries of a Go map come in unspecified order (URL parameters are ordered).
func (e *Env) ExpectFlat(entries []FlatEntry, rules map[string]string, pathFn func(key string) string, groupObj string, unordered bool, baseOrd []OrdKey) {
	seen := map[string]bool{}
	for ei, en := range entries {
		seen[en.Key] = true
		text := rules[en.Key]
		if text == "" {
			continue
		}
		ok := OrdKey{N: ei}
		if unordered {
			ok = OrdKey{M: true, K: en.Key}
		}
		for ri, item := range SplitQuoted(text, ',') {
			if item == "" {
				continue
			}
			ord := append(append([]OrdKey{}, baseOrd...), ok, OrdKey{N: ri})
			key, _, _, _ := SplitRule(item)
			switch key {
			case "exist":
				e.exps = append(e.exps, Exp{Kind: "config", ConfigS: "is no support", Order: ord})
				continue
			case "either", "botheq":
				var g *grp
				for _, x := range e.groups {
					if x.obj == groupObj && x.text == item {
						g = x
					}
				}
				if g == nil {
					g = &grp{obj: groupObj, text: item, kind: key, unordered: unordered}
					e.groups = append(e.groups, g)
				}
				g.members = append(g.members, pathFn(en.Key))
				g.vals = append(g.vals, en.Val)
				continue
			}
			before := len(e.exps)
			e.rule("", "\x00", item, en.Val, ord, false)
			for i := before; i < len(e.exps); i++ {
				if e.exps[i].Kind == "input" {
					e.exps[i].Path = pathFn(en.Key)
				} else {
					e.exps[i].Path = ""
				}
			}
		}
	}
	// keys the rules name but the input lacks: required is violated
	missing := []string{}
	for k := range rules {
		if !seen[k] {
			missing = append(missing, k)
		}
	}
	sort.Strings(missing)
	for _, k := range missing {
		for ri, item := range SplitQuoted(rules[k], ',') {
			key, _, msg, _ := SplitRule(item)
			if key == "required" {
				e.exps = append(e.exps, Exp{Kind: "input", Path: pathFn(k), Echo: "", EchoOK: true, Msg: msg, Rule: "required", Default: "it is required",
					Order: append(append([]OrdKey{}, baseOrd...), OrdKey{M: true, K: "\x00missing:" + k}, OrdKey{N: ri})})
			}
		}
	}
}

// Begin resets the environment for a flat (map / URL) expectation; Finish returns the clauses.
func (e *Env) Begin() { e.exps, e.groups = nil, nil }
func (e *Env) Finish() []Exp {
	e.finishGroups()
	return e.exps
}

// ---------------------------------------------------------------------------------------
// comparison

// Actual is a parsed clause of the library's error (mirrors clause.Clause; kept separate so that
// ref does not depend on the parser package).
type Actual struct {
	Kind  string
	Path  string
	Paths []string
	Echo  string
	Label string
	Text  string
	Raw   string
}

func labelFor(msg string) string {
	for _, r := range msg {
		if r >= 0x4e00 && r <= 0x9fa5 {
			return "说明:"
		}
	}
	return "explain:"
}

// matches: strict mode pins a substring of the library's default wording (which identifies the rule
// when no custom message does); loose mode accepts any non-empty default text. Diff tries strict
// first and falls back to loose, so a change of the default wording alone is never reported.
func (x Exp) matches(a Actual, checkEcho bool) bool { return x.matchesMode(a, checkEcho, false) }

func (x Exp) matchesMode(a Actual, checkEcho, loose bool) bool {
	switch x.Kind {
	case "input":
		if a.Kind != "input" || a.Path != x.Path {
			return false
		}
		if x.Msg != "" {
			if a.Text != x.Msg || a.Label != labelFor(x.Msg) {
				return false
			}
		} else {
			if a.Text == "" || (!loose && x.Default != "" && !strings.Contains(a.Text, x.Default)) {
				return false
			}
			if loose && (strings.HasPrefix(a.Text, "m_") || strings.HasPrefix(a.Text, "必_") || strings.HasPrefix(a.Text, "fn_")) {
				return false // that is one of the harness's custom messages, not default wording
			}
		}
		if checkEcho && x.EchoOK && a.Echo != x.Echo {
			return false
		}
		return true
	case "group":
		if a.Kind != "group" || len(a.Paths) != len(x.Group) || (!loose && !strings.Contains(a.Text, x.Default)) {
			return false
		}
		want, got := x.Group, a.Paths
		if x.GroupUnordered {
			want, got = append([]string{}, want...), append([]string{}, got...)
			sort.Strings(want)
			sort.Strings(got)
		}
		for i := range want {
			if got[i] != want[i] {
				return false
			}
		}
		return true
	case "config":
		if a.Kind != "config" {
			return false
		}
		if strings.Contains(x.ConfigS, "is not exist") && a.Path != x.Path {
			return false
		}
		return loose || strings.Contains(a.Raw, x.ConfigS)
	}
	return false
}

func (x Exp) String() string {
	switch x.Kind {
	case "group":
		return fmt.Sprintf("group(%s %v)", x.GKind, x.Group)
	case "config":
		return fmt.Sprintf("config(%q)", x.ConfigS)
	}
	m := x.Msg
	if m == "" {
		m = "default:" + x.Default
	}
	return fmt.Sprintf("%q/%s/%s", x.Path, x.Rule, m)
}

// ordered reports whether the walk fixes the relative order of two clauses (a before b).
func mustPrecede(a, b []OrdKey) bool {
	for i := 0; i < len(a) && i < len(b); i++ {
		if a[i].M || b[i].M {
			if a[i].M && b[i].M && a[i].K == b[i].K {
				continue
			}
			return false // different entries of one Go map: unordered
		}
		if a[i].N != b[i].N {
			return a[i].N < b[i].N
		}
	}
	return false
}

// DiffResult describes the first disagreement between expected and actual clauses.
type DiffResult struct {
	Kind   string // "" (agree) | missing | extra | echo | order
	Rule   string // rule key of the expected clause involved, when known
	Detail string
}

// Diff compares expected and actual clauses.
func Diff(exp []Exp, act []Actual, checkEcho bool) DiffResult {
	used := make([]bool, len(exp))
	match := make([]int, len(act))
	for i, a := range act {
		match[i] = -1
		// among the unused expected clauses that match (identical clauses are interchangeable)
		// prefer one that keeps the walk order consistent with what was matched so far
		first := -1
		for _, loose := range []bool{false, true} {
			for j, x := range exp {
				if used[j] || !x.matchesMode(a, checkEcho, loose) {
					continue
				}
				if first < 0 {
					first = j
				}
				ok := true
				for k := 0; k < i && ok; k++ {
					if mustPrecede(x.Order, exp[match[k]].Order) {
						ok = false
					}
				}
				if ok {
					match[i] = j
					break
				}
			}
			if match[i] >= 0 || first >= 0 {
				break
			}
		}
		if match[i] < 0 {
			match[i] = first
		}
		if match[i] >= 0 {
			used[match[i]] = true
		}
		if match[i] < 0 {
			// is it a clause with a wrong echo only?
			for j, x := range exp {
				if !used[j] && x.matchesMode(a, false, true) {
					return DiffResult{"echo", x.Rule, fmt.Sprintf("clause %q echoes %q, expected %q", a.Raw, a.Echo, x.Echo)}
				}
			}
			// same path and message but a different label?
			rule := ""
			for _, x := range exp {
				if x.Kind == "input" && x.Path == a.Path && x.Msg != "" && x.Msg == a.Text {
					rule = x.Rule
				}
			}
			return DiffResult{"extra", rule, fmt.Sprintf("unexpected clause %q", a.Raw)}
		}
	}
	for j, x := range exp {
		if !used[j] {
			r := x.Rule
			if x.Kind == "group" || x.GKind != "" {
				r = x.GKind
			}
			return DiffResult{"missing", r, fmt.Sprintf("expected clause %s not reported", x)}
		}
	}
	for i := 0; i < len(act); i++ {
		for k := i + 1; k < len(act); k++ {
			if mustPrecede(exp[match[k]].Order, exp[match[i]].Order) {
				return DiffResult{"order", exp[match[k]].Rule, fmt.Sprintf("clause %q is reported before %q", act[i].Raw, act[k].Raw)}
			}
		}
	}
	return DiffResult{}
}
