package ref

import (
	"fmt"
	"go/ast"
	"go/parser"
	"go/token"
	"reflect"
	"strings"
)

// The tag-injection oracle: an independent reading of "merge the comment's tags into the field's
// tag literal and change nothing else". go/parser is trusted; the tag scanner is hand-written
// (no regular expressions).

type TagKV struct{ K, V string }

// ScanTagItems extracts conventional key:"value" items (key = [A-Za-z0-9_]+, value non-empty
// without a double quote) from text, in order.
func ScanTagItems(text string) []TagKV {
	var out []TagKV
	isWord := func(c byte) bool {
		return c == '_' || (c >= '0' && c <= '9') || (c >= 'a' && c <= 'z') || (c >= 'A' && c <= 'Z')
	}
	i := 0
	for i < len(text) {
		if !isWord(text[i]) {
			i++
			continue
		}
		j := i
		for j < len(text) && isWord(text[j]) {
			j++
		}
		// key = text[i:j]; needs :" next
		if j+1 < len(text) && text[j] == ':' && text[j+1] == '"' {
			k := j + 2
			e := strings.IndexByte(text[k:], '"')
			if e > 0 {
				out = append(out, TagKV{text[i:j], text[k : k+e]})
				i = k + e + 1
				continue
			}
			if e == 0 { // empty value: not an item; the closing quote ends it
				i = k + 1
				continue
			}
		}
		i = j
	}
	return out
}

// MergeTags: existing keys keep their place (value overridden when the comment names the key),
// new keys are appended in comment order.
func MergeTags(existing, inject []TagKV) []TagKV {
	out := make([]TagKV, 0, len(existing)+len(inject))
	used := make([]bool, len(inject))
	for _, e := range existing {
		v := e.V
		for j, in := range inject {
			if !used[j] && in.K == e.K {
				v = in.V
				used[j] = true
				break
			}
		}
		out = append(out, TagKV{e.K, v})
	}
	for j, in := range inject {
		if !used[j] {
			out = append(out, in)
		}
	}
	return out
}

// GoField describes one field of a top-level, ungrouped struct type declaration.
type GoField struct {
	Struct     string
	Index      int
	Names      string
	HasLiteral bool
	Backquoted bool
	Literal    string // raw literal including its quotes
	LitStart   int    // byte offsets of the literal
	LitEnd     int
	Comment    string // text of the trailing comment group ("" when none)
	NComments  int
	Grouped    bool // declared inside a parenthesised type ( ... ) group: outside the stated domain, the
	// injector may or may not process it (either outcome is accepted, corruption is not)
	MentionTag bool    // the trailing comment contains "@tag"
	Inject     []TagKV // well-formed items after "@tag " in the trailing comment
}

// Touchable: the injector may rewrite this field's literal (it has a backquoted literal and its
// trailing comment mentions @tag).
func (f GoField) Touchable() bool { return f.HasLiteral && f.Backquoted && f.MentionTag }

// Annotated: C06's domain — a tag literal plus at least one well-formed @tag item.
func (f GoField) Annotated() bool { return f.Touchable() && len(f.Inject) > 0 }

// AnalyzeGo lists the fields of all top-level ungrouped struct type declarations.
func AnalyzeGo(src []byte) ([]GoField, error) {
	fset := token.NewFileSet()
	f, err := parser.ParseFile(fset, "x.go", src, parser.ParseComments)
	if err != nil {
		return nil, err
	}
	off := func(p token.Pos) int { return fset.Position(p).Offset }
	var out []GoField
	for _, d := range f.Decls {
		gd, ok := d.(*ast.GenDecl)
		if !ok || gd.Tok != token.TYPE {
			continue
		}
		grouped := gd.Lparen.IsValid()
		for _, spec := range gd.Specs {
			ts := spec.(*ast.TypeSpec)
			st, ok := ts.Type.(*ast.StructType)
			if !ok || st.Fields == nil {
				continue
			}
			for i, fl := range st.Fields.List {
				gf := GoField{Struct: ts.Name.Name, Index: i, Grouped: grouped}
				names := []string{}
				for _, n := range fl.Names {
					names = append(names, n.Name)
				}
				gf.Names = strings.Join(names, ",")
				if fl.Tag != nil {
					gf.HasLiteral = true
					gf.Literal = fl.Tag.Value
					gf.Backquoted = strings.HasPrefix(fl.Tag.Value, "`")
					gf.LitStart, gf.LitEnd = off(fl.Tag.Pos()), off(fl.Tag.End())
					if gf.Backquoted {
						// the scanner strips carriage returns from raw string VALUES, so End() falls short
						// when the literal's source text contains one: find the closing backquote in the source
						if e := strings.IndexByte(string(src[gf.LitStart+1:]), '`'); e >= 0 {
							end := gf.LitStart + 1 + e + 1
							if end != gf.LitEnd {
								gf.LitEnd = end
								gf.Grouped = true // outside the stated domain: processed or left alone, never corrupted
								gf.Literal = string(src[gf.LitStart:gf.LitEnd])
							}
						}
					}
				}
				if fl.Comment != nil {
					gf.NComments = len(fl.Comment.List)
					texts := []string{}
					for _, c := range fl.Comment.List {
						texts = append(texts, c.Text)
					}
					gf.Comment = strings.Join(texts, "\n")
					if strings.Contains(gf.Comment, "@tag") {
						gf.MentionTag = true
						// every trailing comment of the field may carry items; they are merged in order
						for _, c := range fl.Comment.List {
							j := strings.Index(c.Text, "@tag ")
							if j < 0 {
								continue
							}
							rest := c.Text[j+len("@tag "):]
							if nl := strings.IndexByte(rest, '\n'); nl >= 0 {
								rest = rest[:nl]
							}
							gf.Inject = append(gf.Inject, ScanTagItems(rest)...)
						}
						for _, it := range gf.Inject {
							if strings.Contains(it.V, "`") {
								// a backquote cannot be written into a raw-string literal: the
								// field cannot be processed and must keep what it has
								gf.Inject = nil
								break
							}
						}
					}
				}
				out = append(out, gf)
			}
		}
	}
	return out, nil
}

// CheckInjection compares an injector run (before -> after) with the oracle. It returns a list
// of (kind, detail) problems; empty means the run is exactly the documented merge.
type InjectProblem struct{ Kind, Detail string }

func CheckInjection(before, after []byte) (problems []InjectProblem, annotated int, shifted int) {
	bf, err := AnalyzeGo(before)
	if err != nil {
		return []InjectProblem{{"input-does-not-parse", err.Error()}}, 0, 0
	}
	af, err := AnalyzeGo(after)
	if err != nil {
		return []InjectProblem{{"output-does-not-parse", err.Error()}}, 0, 0
	}
	if len(bf) != len(af) {
		return []InjectProblem{{"declarations-differ", fmt.Sprintf("%d struct fields before, %d after", len(bf), len(af))}}, 0, 0
	}
	// byte check: everything outside the literals of touchable fields must be unchanged
	cut := func(src []byte, fs []GoField, which []GoField) []byte {
		var rest []byte
		pos := 0
		for i, f := range fs {
			if !which[i].Touchable() || !f.HasLiteral {
				continue
			}
			rest = append(rest, src[pos:f.LitStart]...)
			rest = append(rest, 0) // marks the cut
			pos = f.LitEnd
		}
		return append(rest, src[pos:]...)
	}
	rb, ra := cut(before, bf, bf), cut(after, af, bf)
	if string(rb) != string(ra) {
		// locate the first difference
		n := 0
		for n < len(rb) && n < len(ra) && rb[n] == ra[n] {
			n++
		}
		lo := n - 40
		if lo < 0 {
			lo = 0
		}
		hb, ha := n+60, n+60
		if hb > len(rb) {
			hb = len(rb)
		}
		if ha > len(ra) {
			ha = len(ra)
		}
		problems = append(problems, InjectProblem{"bytes-outside-tag-literals-changed", fmt.Sprintf("first difference at remainder offset %d: before %q after %q", n, rb[lo:hb], ra[lo:ha])})
	}
	delta := 0
	for i := range bf {
		b, a := bf[i], af[i]
		if b.Struct != a.Struct || b.Names != a.Names || b.HasLiteral != a.HasLiteral {
			problems = append(problems, InjectProblem{"declarations-differ", fmt.Sprintf("field %s.%s became %s.%s", b.Struct, b.Names, a.Struct, a.Names)})
			continue
		}
		if !b.Touchable() {
			if b.Literal != a.Literal {
				problems = append(problems, InjectProblem{"unannotated-field-changed", fmt.Sprintf("%s.%s: %s -> %s", b.Struct, b.Names, b.Literal, a.Literal)})
			}
			continue
		}
		if b.Grouped && a.Literal == b.Literal {
			continue
		}
		if b.Annotated() {
			annotated++
			if delta != 0 {
				shifted++
			}
		}
		delta += len(a.Literal) - len(b.Literal)
		existing := ScanTagItems(strings.Trim(b.Literal, "`"))
		want := MergeTags(existing, b.Inject)
		if !strings.HasPrefix(a.Literal, "`") || !strings.HasSuffix(a.Literal, "`") {
			problems = append(problems, InjectProblem{"literal-not-backquoted", a.Literal})
			continue
		}
		got := ScanTagItems(strings.Trim(a.Literal, "`"))
		cls := tagClass(b)
		if len(got) != len(want) {
			problems = append(problems, InjectProblem{"tag-keys-differ|" + cls, fmt.Sprintf("%s.%s: literal %s with comment %q became %s; want keys %v", b.Struct, b.Names, b.Literal, b.Comment, a.Literal, want)})
			continue
		}
		seen := map[string]bool{}
		for j := range want {
			if got[j] != want[j] {
				kind := "tag-value-differs|"
				if got[j].K != want[j].K {
					kind = "tag-key-order-differs|"
				}
				problems = append(problems, InjectProblem{kind + cls, fmt.Sprintf("%s.%s: literal %s with comment %q became %s; want item %d = %s:%q", b.Struct, b.Names, b.Literal, b.Comment, a.Literal, j, want[j].K, want[j].V)})
				break
			}
			if seen[got[j].K] {
				problems = append(problems, InjectProblem{"duplicate-key|" + cls, fmt.Sprintf("%s.%s: %s", b.Struct, b.Names, a.Literal)})
			}
			seen[got[j].K] = true
			// cross-check with the standard tag reader (values that are valid Go string bodies)
			if v, ok := reflect.StructTag(strings.Trim(a.Literal, "`")).Lookup(want[j].K); ok {
				if q, ok2 := unquoteOK(want[j].V); ok2 && v != q {
					problems = append(problems, InjectProblem{"struct-tag-lookup-differs|" + cls, fmt.Sprintf("%s.%s key %s: Lookup=%q want %q", b.Struct, b.Names, want[j].K, v, q)})
				}
			}
		}
	}
	return problems, annotated, shifted
}

func tagClass(f GoField) string {
	cls := []string{}
	for _, kv := range f.Inject {
		if strings.Contains(kv.V, "$") {
			cls = append(cls, "dollar-in-value")
			break
		}
	}
	if len(cls) == 0 {
		cls = append(cls, "plain")
	}
	return strings.Join(cls, ",")
}

func unquoteOK(body string) (string, bool) {
	// a tag value is a Go interpreted string body
	var sb strings.Builder
	for i := 0; i < len(body); i++ {
		c := body[i]
		if c == '\\' {
			if i+1 >= len(body) {
				return "", false
			}
			switch body[i+1] {
			case '\\':
				sb.WriteByte('\\')
			case 'n':
				sb.WriteByte('\n')
			case 't':
				sb.WriteByte('\t')
			default:
				return "", false
			}
			i++
			continue
		}
		sb.WriteByte(c)
	}
	return sb.String(), true
}
