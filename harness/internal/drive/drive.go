// Package drive calls the library's public entry points on behalf of the monitors, containing
// panics so that one crash does not end the run.
package drive

import (
	"fmt"
	"net/url"
	"reflect"
	"runtime"
	"strings"
	"sync"
	"time"

	"gitee.com/xuesongtao/protoc-go-valid/valid"
)

// Out is the observable outcome of one validation call.
type Out struct {
	Nil     bool   // returned error was nil
	Err     string // error text ("" when Nil)
	Panic   string // recovered panic value ("" when none)
	PanicFn string // innermost library function on the panicking stack
}

func (o Out) String() string {
	if o.Panic != "" {
		return "PANIC(" + o.Panic + " in " + o.PanicFn + ")"
	}
	if o.Nil {
		return "<nil>"
	}
	return o.Err
}

// Call runs f with panic containment.
func Call(f func() error) (out Out) {
	defer func() {
		if r := recover(); r != nil {
			out = Out{Panic: fmt.Sprint(r), PanicFn: innermostLibFrame()}
		}
	}()
	err := f()
	if err == nil {
		return Out{Nil: true}
	}
	return Out{Err: err.Error()}
}

// CallStr is Call for functions returning a string.
func CallStr(f func() string) (s string, pan string, fn string) {
	defer func() {
		if r := recover(); r != nil {
			pan, fn = fmt.Sprint(r), innermostLibFrame()
		}
	}()
	return f(), "", ""
}

const libPrefix = "gitee.com/xuesongtao/protoc-go-valid/"

func innermostLibFrame() string {
	pcs := make([]uintptr, 64)
	n := runtime.Callers(3, pcs)
	frames := runtime.CallersFrames(pcs[:n])
	for {
		fr, more := frames.Next()
		if strings.HasPrefix(fr.Function, libPrefix) {
			return strings.TrimPrefix(fr.Function, libPrefix)
		}
		if !more {
			break
		}
	}
	return "?"
}

// ---------------------------------------------------------------------------------------
// Carriers: present one (value, rule list) through the different entry points.

var (
	oneFieldMu    sync.Mutex
	oneFieldTypes = map[reflect.Type]reflect.Type{}
)

// OneFieldType returns struct{ F T } (no tag), cached per T.
func OneFieldType(t reflect.Type) reflect.Type {
	oneFieldMu.Lock()
	defer oneFieldMu.Unlock()
	if st, ok := oneFieldTypes[t]; ok {
		return st
	}
	st := reflect.StructOf([]reflect.StructField{{Name: "F", Type: t}})
	oneFieldTypes[t] = st
	return st
}

// TagSafe reports whether rule text can be written inside a conventional struct tag value
// (reflect.StructTag.Get unquotes it with strconv.Unquote).
func TagSafe(rule string) bool {
	for i := 0; i < len(rule); i++ {
		c := rule[i]
		if c == '"' || c == '\\' || c == '`' || c < 0x20 || c == 0x7f {
			return false
		}
	}
	return true
}

// ParamKey is the key type of the slice-map carrier's maps.
type ParamKey string

const (
	Var        = "var"
	StructRM   = "struct-rm"
	StructTag  = "struct-tag"
	MapT       = "map"
	MapIface   = "map-iface"
	SliceMap   = "slice-map"
	UrlRaw     = "url-raw"
	UrlEnc     = "url-enc"
	UrlEncFull = "url-encfull"
	UrlEncName = "url-encname" // the parameter's NAME needs percent-encoding as well: 名字[k]=v travels as %E5%90%8D%E5%AD%97%5Bk%5D=v
	UrlPtr     = "url-ptr"     // *string input
	// StructCtx: the ruled field F in the middle of a struct with neighbours of other kinds —
	// struct{ T0 time.Time; B string; F T; T1 *time.Time; C uint8; T2 time.Time; G T } (G carries the
	// same rule and value as F). Whatever the neighbours are, F and G are judged by their own values.
	StructCtx = "struct-ctx"
)

var (
	ctxMu    sync.Mutex
	ctxTypes = map[string]reflect.Type{}
	timeT    = reflect.TypeOf(time.Time{})
)

func ctxType(t reflect.Type, tag string) reflect.Type {
	ctxMu.Lock()
	defer ctxMu.Unlock()
	k := t.String() + "\x00" + tag
	if st, ok := ctxTypes[k]; ok {
		return st
	}
	st := reflect.StructOf([]reflect.StructField{
		{Name: "T0", Type: timeT},
		{Name: "B", Type: reflect.TypeOf("")},
		{Name: "F", Type: t, Tag: reflect.StructTag(tag)},
		{Name: "T1", Type: reflect.PointerTo(timeT)},
		{Name: "C", Type: reflect.TypeOf(uint8(0))},
		{Name: "T2", Type: timeT},
		{Name: "G", Type: t, Tag: reflect.StructTag(tag)},
	})
	if len(ctxTypes) < 4096 {
		ctxTypes[k] = st
	}
	return st
}

// Carry validates v under rule through the given carrier. ok=false when the carrier cannot
// express the case (e.g. Url for a non-string).
func Carry(carrier string, v reflect.Value, rule string) (out Out, ok bool) {
	switch carrier {
	case Var:
		return Call(func() error { return valid.Var(v.Interface(), rule) }), true
	case StructRM:
		st := OneFieldType(v.Type())
		obj := reflect.New(st)
		obj.Elem().Field(0).Set(v)
		return Call(func() error { return valid.Struct(obj.Interface(), valid.RM{"F": rule}) }), true
	case StructTag:
		if !TagSafe(rule) {
			return Out{}, false
		}
		st := reflect.StructOf([]reflect.StructField{{Name: "F", Type: v.Type(), Tag: reflect.StructTag(`valid:"` + rule + `"`)}})
		obj := reflect.New(st)
		obj.Elem().Field(0).Set(v)
		return Call(func() error { return valid.Struct(obj.Interface()) }), true
	case StructCtx:
		tag := ""
		var rm valid.RM
		if TagSafe(rule) && len(rule)%2 == 0 {
			tag = `valid:"` + rule + `"`
		} else {
			rm = valid.RM{"F": rule, "G": rule}
		}
		obj := reflect.New(ctxType(v.Type(), tag))
		e := obj.Elem()
		if len(rule)%3 != 0 {
			e.Field(0).Set(reflect.ValueOf(time.Unix(1700000000, 0)))
		}
		e.Field(1).SetString("bbbbbbbbbbbbbbbbbbbbbbb")
		e.Field(2).Set(v)
		if len(rule)%5 < 2 {
			tm := time.Unix(1600000000, 0)
			e.Field(3).Set(reflect.ValueOf(&tm))
		}
		e.Field(4).SetUint(201)
		e.Field(5).Set(reflect.ValueOf(time.Unix(1500000000, 0)))
		e.Field(6).Set(v)
		out := Call(func() error {
			if rm != nil {
				return valid.Struct(obj.Interface(), rm)
			}
			return valid.Struct(obj.Interface())
		})
		// F and G carry the same rule and the same value: fold the two identical halves into one
		// so that the result reads like that of a one-field carrier
		return foldTwin(out), true
	case MapT:
		m := reflect.MakeMap(reflect.MapOf(reflect.TypeOf(""), v.Type()))
		m.SetMapIndex(reflect.ValueOf("k"), v)
		return Call(func() error { return valid.Map(m.Interface(), valid.RM{"k": rule}) }), true
	case MapIface:
		m := map[string]interface{}{"k": v.Interface()}
		return Call(func() error { return valid.Map(m, valid.RM{"k": rule}) }), true
	case SliceMap:
		// the key type is a DEFINED string type (type Param string): a string-keyed map like any other
		mt := reflect.MapOf(reflect.TypeOf(ParamKey("")), v.Type())
		m := reflect.MakeMap(mt)
		m.SetMapIndex(reflect.ValueOf(ParamKey("k")), v)
		sl := reflect.MakeSlice(reflect.SliceOf(mt), 0, 1)
		sl = reflect.Append(sl, m)
		return Call(func() error { return valid.Map(sl.Interface(), valid.RM{"k": rule}) }), true
	case UrlRaw, UrlEnc, UrlEncFull, UrlPtr, UrlEncName:
		if v.Kind() != reflect.String {
			return Out{}, false
		}
		s := v.String()
		var u string
		switch carrier {
		case UrlEncName:
			name := UrlEncNameKey
			u = "http://h.example/p?x=1&" + url.QueryEscape(name) + "=" + url.QueryEscape(s) + "&tags%5B%5D=t"
			return Call(func() error { return valid.Url(u, valid.RM{name: rule}) }), true
		case UrlPtr:
			u = "http://h.example/p?k=" + url.QueryEscape(s)
			up := &u
			if len(s)%2 == 0 {
				upp := &up
				_ = upp
			}
			return Call(func() error { return valid.Url(up, valid.RM{"k": rule}) }), true
		case UrlRaw:
			if !UrlUnreserved(s) {
				return Out{}, false
			}
			u = "http://h.example/p?k=" + s
		case UrlEnc:
			u = "http://h.example/p?k=" + url.QueryEscape(s)
		default:
			// the whole URL escaped once, as the repository's own tests do; after the single
			// un-escape a literal '&' or '=' inside the value could not be told from a separator
			if strings.ContainsAny(s, "&=") {
				return Out{}, false
			}
			u = url.QueryEscape("http://h.example/p?k=" + s)
		}
		return Call(func() error { return valid.Url(u, valid.RM{"k": rule}) }), true
	}
	return Out{}, false
}

// UrlEncNameKey is the parameter name of the UrlEncName carrier (and the path of its clauses).
const UrlEncNameKey = "名字[k]"

// UrlUnreserved: s consists of RFC 3986 unreserved characters only (so the raw form is its own encoding).
func UrlUnreserved(s string) bool {
	for i := 0; i < len(s); i++ {
		c := s[i]
		switch {
		case c >= 'a' && c <= 'z', c >= 'A' && c <= 'Z', c >= '0' && c <= '9', c == '-', c == '.', c == '_', c == '~':
		default:
			return false
		}
	}
	return true
}

// foldTwin reduces the result of a StructCtx call (fields F and G carry the same value under the
// same rule) to the clauses of F. If the two halves differ the text is returned with a marker in
// front: the same value under the same rule was judged differently within one call.
func foldTwin(o Out) Out {
	if o.Nil || o.Panic != "" {
		return o
	}
	sep := valid.ErrEndFlag
	parts := strings.Split(strings.TrimSuffix(o.Err, sep), sep)
	bad := Out{Err: "TWIN-FIELDS-JUDGED-DIFFERENTLY " + o.Err}
	if len(parts)%2 != 0 {
		return bad
	}
	h := len(parts) / 2
	for i := 0; i < h; i++ {
		f, g := strings.TrimSpace(parts[i]), strings.TrimSpace(parts[h+i])
		if !strings.HasPrefix(f, `"`) {
			return bad
		}
		q := strings.IndexByte(f[1:], '"')
		if q < 1 || f[q] != 'F' {
			return bad
		}
		if f[:q]+"G"+f[q+1:] != g {
			return bad
		}
	}
	return Out{Err: strings.Join(parts[:h], sep)}
}
