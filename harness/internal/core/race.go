package core

import (
	"os"
	"path/filepath"
	"sort"
	"strings"
)

// RaceReport is one de-duplicated data race report.
type RaceReport struct {
	Pair    string // sorted pair of the outermost library frames of the two accesses
	Count   int
	Example string // first report block with this pair (truncated)
	LibSide bool   // at least one of the two stacks passes through the library
}

const LibPkg = "gitee.com/xuesongtao/protoc-go-valid/"

// ParseRaceLogs reads <prefix>.* files written by the race detector (log_path) and returns
// reports de-duplicated by the pair of outermost library entry points.
func ParseRaceLogs(prefix string) (reports []RaceReport, total int) {
	files, _ := filepath.Glob(prefix + ".*")
	by := map[string]*RaceReport{}
	for _, f := range files {
		b, err := os.ReadFile(f)
		if err != nil {
			continue
		}
		for _, block := range strings.Split(string(b), "==================") {
			if !strings.Contains(block, "WARNING: DATA RACE") {
				continue
			}
			total++
			var outer []string
			lib := false
			// access stacks are the first two paragraphs
			paras := strings.Split(strings.TrimSpace(block), "\n\n")
			n := 0
			for _, p := range paras {
				lines := strings.Split(p, "\n")
				if len(lines) == 0 {
					continue
				}
				h := strings.TrimSpace(lines[0])
				if strings.HasPrefix(h, "WARNING: DATA RACE") && len(lines) > 1 {
					h = strings.TrimSpace(lines[1])
					lines = lines[1:]
				}
				if !(strings.HasPrefix(h, "Read at") || strings.HasPrefix(h, "Write at") || strings.HasPrefix(h, "Previous ") || strings.HasPrefix(h, "Atomic ")) {
					continue
				}
				n++
				out := "(non-library)"
				first := ""
				for _, l := range lines[1:] {
					t := strings.TrimSpace(l)
					if strings.HasPrefix(t, "/") || t == "" {
						continue
					}
					if i := strings.LastIndex(t, "("); i > 0 {
						t = t[:i]
					}
					if first == "" {
						first = t
					}
					if strings.HasPrefix(t, LibPkg) {
						out = strings.TrimPrefix(t, LibPkg) // keep overwriting: the last one is the outermost
						lib = true
					}
				}
				if out == "(non-library)" {
					out = "(non-library:" + first + ")"
				}
				outer = append(outer, out)
				if n == 2 {
					break
				}
			}
			sort.Strings(outer)
			key := strings.Join(outer, " <-> ")
			r := by[key]
			if r == nil {
				ex := strings.TrimSpace(block)
				if len(ex) > 2500 {
					ex = ex[:2500]
				}
				r = &RaceReport{Pair: key, Example: ex, LibSide: lib}
				by[key] = r
			}
			r.Count++
		}
	}
	keys := []string{}
	for k := range by {
		keys = append(keys, k)
	}
	sort.Strings(keys)
	for _, k := range keys {
		reports = append(reports, *by[k])
	}
	return
}

// AbsorbRaces turns the race reports of a child into violations (library side) or
// inconclusive entries (races entirely inside the harness).
func (p *ParentCtx) AbsorbRaces(oc ChildOutcome) (total int) {
	reps, total := ParseRaceLogs(oc.RaceLog)
	for _, r := range reps {
		if r.LibSide {
			p.Res.Violate(p.Prop.ID+"|race|"+r.Pair, "data race reported by the Go race detector between "+r.Pair+" ("+itoa(r.Count)+" reports in this child)",
				map[string]interface{}{"report": r.Example, "mode": oc.Spec.Mode, "args": oc.Spec.Args})
			p.Res.ViolationN[p.Prop.ID+"|race|"+r.Pair] += int64(r.Count - 1)
		} else {
			p.Res.Inconc("race detector report entirely inside the harness: " + r.Pair + ": " + oneLine(r.Example, 400))
		}
	}
	p.Res.Counters["race_reports_total"] += int64(total)
	return total
}

func itoa(n int) string {
	if n == 0 {
		return "0"
	}
	s := ""
	neg := n < 0
	if neg {
		n = -n
	}
	for n > 0 {
		s = string(rune('0'+n%10)) + s
		n /= 10
	}
	if neg {
		s = "-" + s
	}
	return s
}
