// Package core holds the machinery shared by all property monitors: the per-shard
// result record, the known-findings matcher, the parent/child process model and the
// evidence writer.
package core

import (
	"bufio"
	"encoding/binary"
	"encoding/json"
	"fmt"
	"hash/fnv"
	"math/rand"
	"os"
	"path/filepath"
	"sort"
	"strings"
	"sync"
	"time"
)

// Exit codes of the vmon binary. Go's own runtime uses 2 for panics / fatal errors, so
// "inconclusive" is 3; anything else coming out of a child is classified from its stderr.
const (
	ExitOK           = 0
	ExitViolation    = 1
	ExitInconclusive = 3
)

// Violation is one disagreement between the monitored code and an oracle.
type Violation struct {
	Sig    string      `json:"sig"`    // stable signature (property|entry|rule|kind|class|direction)
	Detail string      `json:"detail"` // human readable witness line
	Replay interface{} `json:"replay"` // everything needed to re-execute the case
}

// Result is what one shard (child process) reports to the parent.
type Result struct {
	Property     string                 `json:"property"`
	Shard        int                    `json:"shard"`
	Evaluations  int64                  `json:"evaluations"`
	Counters     map[string]int64       `json:"counters"`
	Samples      []interface{}          `json:"samples"`
	Violations   []Violation            `json:"violations"`
	ViolationN   map[string]int64       `json:"violation_n"` // per signature count
	Inconclusive []string               `json:"inconclusive"`
	Assumptions  []string               `json:"assumptions"`
	Extra        map[string]interface{} `json:"extra,omitempty"`
	DistinctFile string                 `json:"distinct_file,omitempty"`
	// DistinctByConstruction counts non-trivial cases that are distinct because they come from an
	// enumeration without repetition (no hash set needed).
	DistinctByConstruction int64 `json:"distinct_by_construction"`

	mu       sync.Mutex
	distinct map[uint64]struct{}
	sampleN  map[string]int
}

const maxDistinct = 6_000_000

func NewResult(prop string, shard int) *Result {
	return &Result{
		Property:   prop,
		Shard:      shard,
		Counters:   map[string]int64{},
		ViolationN: map[string]int64{},
		distinct:   map[uint64]struct{}{},
		sampleN:    map[string]int{},
		Extra:      map[string]interface{}{},
	}
}

func (r *Result) Count(name string, n ...int64) {
	d := int64(1)
	if len(n) > 0 {
		d = n[0]
	}
	r.mu.Lock()
	r.Counters[name] += d
	r.mu.Unlock()
}

func (r *Result) Max(name string, v int64) {
	r.mu.Lock()
	if r.Counters[name] < v {
		r.Counters[name] = v
	}
	r.mu.Unlock()
}

func (r *Result) Eval(n ...int64) {
	d := int64(1)
	if len(n) > 0 {
		d = n[0]
	}
	r.mu.Lock()
	r.Evaluations += d
	r.mu.Unlock()
}

// Distinct records a non-trivial case by the canonical text describing it.
func (r *Result) Distinct(canon string) {
	h := fnv.New64a()
	h.Write([]byte(canon))
	r.DistinctHash(h.Sum64())
}

func (r *Result) DistinctHash(h uint64) {
	r.mu.Lock()
	if len(r.distinct) < maxDistinct {
		r.distinct[h] = struct{}{}
	}
	r.mu.Unlock()
}

func (r *Result) DistinctLen() int {
	r.mu.Lock()
	defer r.mu.Unlock()
	return len(r.distinct) + int(r.DistinctByConstruction)
}

// DistinctEnum counts n non-trivial cases that are distinct by construction.
func (r *Result) DistinctEnum(n int64) {
	r.mu.Lock()
	r.DistinctByConstruction += n
	r.mu.Unlock()
}

// Sample keeps at most perClass literal samples per class label.
func (r *Result) Sample(class string, perClass int, v interface{}) {
	r.mu.Lock()
	defer r.mu.Unlock()
	if r.sampleN[class] >= perClass || len(r.Samples) >= 40 {
		return
	}
	r.sampleN[class]++
	r.Samples = append(r.Samples, map[string]interface{}{"class": class, "case": v})
}

// Violate records a violation (at most 3 witnesses per signature are kept, all are counted).
func (r *Result) Violate(sig, detail string, replay interface{}) {
	r.mu.Lock()
	defer r.mu.Unlock()
	r.ViolationN[sig]++
	if r.ViolationN[sig] > 2 || len(r.Violations) >= 60 {
		return
	}
	r.Violations = append(r.Violations, Violation{Sig: sig, Detail: detail, Replay: replay})
}

func (r *Result) Inconc(msg string) {
	r.mu.Lock()
	r.Inconclusive = append(r.Inconclusive, msg)
	r.mu.Unlock()
}

func (r *Result) Assume(msg string) {
	r.mu.Lock()
	for _, a := range r.Assumptions {
		if a == msg {
			r.mu.Unlock()
			return
		}
	}
	r.Assumptions = append(r.Assumptions, msg)
	r.mu.Unlock()
}

// Save writes the result (and the distinct-hash set next to it).
func (r *Result) Save(path string) error {
	r.mu.Lock()
	defer r.mu.Unlock()
	if len(r.distinct) > 0 {
		df := path + ".distinct"
		f, err := os.Create(df)
		if err != nil {
			return err
		}
		w := bufio.NewWriterSize(f, 1<<20)
		var b [8]byte
		for h := range r.distinct {
			binary.LittleEndian.PutUint64(b[:], h)
			w.Write(b[:])
		}
		w.Flush()
		f.Close()
		r.DistinctFile = df
	}
	data, err := json.Marshal(r)
	if err != nil {
		return err
	}
	return os.WriteFile(path, data, 0o644)
}

func LoadResult(path string) (*Result, error) {
	data, err := os.ReadFile(path)
	if err != nil {
		return nil, err
	}
	r := NewResult("", 0)
	if err := json.Unmarshal(data, r); err != nil {
		return nil, err
	}
	if r.Counters == nil {
		r.Counters = map[string]int64{}
	}
	if r.ViolationN == nil {
		r.ViolationN = map[string]int64{}
	}
	if r.DistinctFile != "" {
		b, err := os.ReadFile(r.DistinctFile)
		if err == nil {
			for i := 0; i+8 <= len(b); i += 8 {
				r.distinct[binary.LittleEndian.Uint64(b[i:])] = struct{}{}
			}
		}
	}
	return r, nil
}

// Merge folds other into r (counters are summed, "max_" counters maximised).
func (r *Result) Merge(o *Result) {
	r.Evaluations += o.Evaluations
	r.DistinctByConstruction += o.DistinctByConstruction
	for k, v := range o.Counters {
		if strings.HasPrefix(k, "max_") {
			if r.Counters[k] < v {
				r.Counters[k] = v
			}
		} else {
			r.Counters[k] += v
		}
	}
	for h := range o.distinct {
		if len(r.distinct) < 4*maxDistinct {
			r.distinct[h] = struct{}{}
		}
	}
	for _, s := range o.Samples {
		if len(r.Samples) < 24 {
			r.Samples = append(r.Samples, s)
		}
	}
	for k, v := range o.ViolationN {
		r.ViolationN[k] += v
	}
	r.Violations = append(r.Violations, o.Violations...)
	r.Inconclusive = append(r.Inconclusive, o.Inconclusive...)
	for _, a := range o.Assumptions {
		r.Assume(a)
	}
	for k, v := range o.Extra {
		if _, ok := r.Extra[k]; !ok {
			r.Extra[k] = v
		}
	}
}

// ---------------------------------------------------------------------------------------
// Shard context

type Tier string

const (
	Quick    Tier = "quick"
	Thorough Tier = "thorough"
)

// Ctx is what a property's shard function receives.
type Ctx struct {
	Prop    string
	Tier    Tier
	Seed    int64
	Shard   int
	Of      int
	Mode    string // child mode for properties with custom parents
	Args    map[string]string
	WorkDir string // scratch directory private to this shard (removed by the parent)
	Res     *Result
	Exe     string // path of the vmon binary itself
	CLI     string // path of the built protoc-go-valid CLI ("" when not built)
	journal *os.File
}

// Rng returns a deterministic source for (property, phase, shard).
func (c *Ctx) Rng(phase string) *rand.Rand {
	h := fnv.New64a()
	fmt.Fprintf(h, "%s|%s|%d|%d", c.Prop, phase, c.Seed, c.Shard)
	return rand.New(rand.NewSource(int64(h.Sum64())))
}

// RngGlobal is the same for all shards (used when every shard must agree on a choice).
func (c *Ctx) RngGlobal(phase string) *rand.Rand {
	h := fnv.New64a()
	fmt.Fprintf(h, "%s|%s|%d", c.Prop, phase, c.Seed)
	return rand.New(rand.NewSource(int64(h.Sum64())))
}

// Journal appends a line describing the case about to be executed; after a process-fatal
// error the last line names the guilty case.
func (c *Ctx) Journal(format string, a ...interface{}) {
	if c.journal == nil {
		return
	}
	fmt.Fprintf(c.journal, format+"\n", a...)
}

func (c *Ctx) OpenJournal(path string) {
	f, err := os.OpenFile(path, os.O_CREATE|os.O_WRONLY|os.O_TRUNC, 0o644)
	if err == nil {
		c.journal = f
	}
}

// Pick scales a count by tier.
func (c *Ctx) Pick(quick, thorough int) int {
	if c.Tier == Thorough {
		return thorough
	}
	return quick
}

// Mine says whether global case index i belongs to this shard.
func (c *Ctx) Mine(i int) bool { return c.Of <= 1 || i%c.Of == c.Shard }

// ---------------------------------------------------------------------------------------
// Known findings

type Finding struct {
	State    string // open | fixed
	Property string
	Sig      string // only for open
	Text     string
}

func LoadFindings(path string) ([]Finding, error) {
	f, err := os.Open(path)
	if err != nil {
		if os.IsNotExist(err) {
			return nil, nil
		}
		return nil, err
	}
	defer f.Close()
	var out []Finding
	sc := bufio.NewScanner(f)
	sc.Buffer(make([]byte, 1<<20), 1<<20)
	for sc.Scan() {
		line := strings.TrimSpace(sc.Text())
		if line == "" || strings.HasPrefix(line, "#") {
			continue
		}
		var fd Finding
		switch {
		case strings.HasPrefix(line, "open:"):
			fd.State = "open"
			line = strings.TrimSpace(line[5:])
		case strings.HasPrefix(line, "fixed:"):
			fd.State = "fixed"
			line = strings.TrimSpace(line[6:])
		default:
			continue
		}
		fields := strings.Fields(line)
		rest := []string{}
		for _, fl := range fields {
			switch {
			case strings.HasPrefix(fl, "property=") && fd.Property == "":
				fd.Property = fl[len("property="):]
			case strings.HasPrefix(fl, "sig=") && fd.Sig == "":
				fd.Sig = fl[len("sig="):]
			default:
				rest = append(rest, fl)
			}
		}
		fd.Text = strings.Join(rest, " ")
		out = append(out, fd)
	}
	return out, sc.Err()
}

// OpenSigs returns the signatures listed as open for a property.
func OpenSigs(fs []Finding, prop string) map[string]string {
	m := map[string]string{}
	for _, f := range fs {
		if f.State == "open" && f.Property == prop && f.Sig != "" {
			m[f.Sig] = f.Text
		}
	}
	return m
}

// ---------------------------------------------------------------------------------------
// Evidence

type Evidence struct {
	PropertyID  string                 `json:"property_id"`
	Tier        string                 `json:"tier"`
	Seed        int64                  `json:"seed"`
	Level       string                 `json:"level"`
	Coverage    map[string]interface{} `json:"coverage"`
	Assumptions []string               `json:"assumptions"`
	WallS       float64                `json:"wall_s"`
	Violations  int                    `json:"violations"`
}

func WriteEvidence(path string, prop string, tier Tier, seed int64, r *Result, rule string, exhaustive bool, extra map[string]interface{}, wall time.Duration, nviol int, verdict string) error {
	cov := map[string]interface{}{
		"evaluations":         r.Evaluations,
		"distinct_nontrivial": len(r.distinct) + int(r.DistinctByConstruction),
		"rule":                rule,
		"samples":             r.Samples,
		"exhaustive":          exhaustive,
		"verdict":             verdict,
	}
	keys := make([]string, 0, len(r.Counters))
	for k := range r.Counters {
		keys = append(keys, k)
	}
	sort.Strings(keys)
	cnt := map[string]int64{}
	for _, k := range keys {
		cnt[k] = r.Counters[k]
	}
	cov["observed"] = cnt
	if len(r.Inconclusive) > 0 {
		cov["inconclusive"] = r.Inconclusive
	}
	if len(r.ViolationN) > 0 {
		cov["violation_signatures"] = r.ViolationN
	}
	for k, v := range r.Extra {
		cov[k] = v
	}
	for k, v := range extra {
		cov[k] = v
	}
	if r.Samples == nil {
		cov["samples"] = []interface{}{}
	}
	ev := Evidence{
		PropertyID:  prop,
		Tier:        string(tier),
		Seed:        seed,
		Level:       "exploration",
		Coverage:    cov,
		Assumptions: r.Assumptions,
		WallS:       float64(wall.Milliseconds()) / 1000,
		Violations:  nviol,
	}
	if ev.Assumptions == nil {
		ev.Assumptions = []string{}
	}
	data, err := json.MarshalIndent(ev, "", " ")
	if err != nil {
		return err
	}
	os.MkdirAll(filepath.Dir(path), 0o755)
	return os.WriteFile(path, data, 0o644)
}
