package core

import (
	"encoding/json"
	"fmt"
	"os"
	"os/exec"
	"path/filepath"
	"regexp"
	"runtime"
	"runtime/pprof"
	"sort"
	"strconv"
	"strings"
	"sync"
	"syscall"
	"time"
)

// Prop describes one property monitor.
type Prop struct {
	ID         string
	Rule       string                           // how cases are generated and what counts as distinct / non-trivial
	Exhaustive func(t Tier) bool                // whether the tier enumerates a finite space completely
	Shards     func(t Tier) int                 // number of child processes for the default parent
	Run        func(c *Ctx)                     // shard body (runs in a child process)
	Parent     func(p *ParentCtx) *Result       // optional: custom orchestration (relational checks across processes)
	Check      func(r *Result, t Tier)          // post-merge minimum-observation checks (adds Inconclusive entries)
	Replay     func(raw json.RawMessage) string // optional: re-execute a witness, return a description of what happened
	Timeout    func(t Tier) time.Duration
}

var registry = map[string]*Prop{}

func Register(p *Prop)       { registry[p.ID] = p }
func Lookup(id string) *Prop { return registry[id] }
func AllIDs() []string {
	ids := []string{}
	for k := range registry {
		ids = append(ids, k)
	}
	sort.Strings(ids)
	return ids
}

// ParentCtx is handed to custom parents.
type ParentCtx struct {
	Prop    *Prop
	Tier    Tier
	Seed    int64
	Exe     string
	CLI     string
	TmpDir  string
	Res     *Result
	Timeout time.Duration
}

// ChildSpec describes one child process to spawn.
type ChildSpec struct {
	Shard int
	Of    int
	Mode  string
	Args  map[string]string
	Env   []string
	Seed  int64 // 0 => parent's seed
}

// ChildOutcome is what came back.
type ChildOutcome struct {
	Spec     ChildSpec
	Res      *Result // nil when the child did not deliver a result
	ExitCode int
	TimedOut bool
	Stderr   string // path
	Journal  string // path
	WorkDir  string
	RaceLog  string // prefix of the race detector's log files (<prefix>.<pid>)
}

func envInt(name string, def int) int {
	if v := os.Getenv(name); v != "" {
		if n, err := strconv.Atoi(v); err == nil {
			return n
		}
	}
	return def
}

// Spawn runs the given children, at most par at a time, and returns their outcomes in order.
func (p *ParentCtx) Spawn(specs []ChildSpec, par int) []ChildOutcome {
	if par <= 0 {
		par = runtime.NumCPU()
	}
	out := make([]ChildOutcome, len(specs))
	sem := make(chan struct{}, par)
	var wg sync.WaitGroup
	for i := range specs {
		wg.Add(1)
		go func(i int) {
			defer wg.Done()
			sem <- struct{}{}
			defer func() { <-sem }()
			out[i] = p.spawnOne(i, specs[i])
		}(i)
	}
	wg.Wait()
	return out
}

var spawnSeq int64
var spawnMu sync.Mutex

func (p *ParentCtx) spawnOne(idx int, s ChildSpec) ChildOutcome {
	spawnMu.Lock()
	spawnSeq++
	n := spawnSeq
	spawnMu.Unlock()
	base := filepath.Join(p.TmpDir, fmt.Sprintf("child_%d", n))
	work := base + "_work"
	os.MkdirAll(work, 0o755)
	resFile := base + "_result.json"
	errFile := base + "_stderr.txt"
	outFile := base + "_stdout.txt"
	jrnFile := base + "_journal.txt"
	seed := p.Seed
	if s.Seed != 0 {
		seed = s.Seed
	}
	args := []string{"child", "--prop", p.Prop.ID, "--tier", string(p.Tier), "--seed", strconv.FormatInt(seed, 10),
		"--shard", strconv.Itoa(s.Shard), "--of", strconv.Itoa(s.Of), "--out", resFile, "--work", work, "--journal", jrnFile,
		"--mode", s.Mode, "--cli", p.CLI}
	keys := []string{}
	for k := range s.Args {
		keys = append(keys, k)
	}
	sort.Strings(keys)
	for _, k := range keys {
		args = append(args, "--arg", k+"="+s.Args[k])
	}
	cmd := exec.Command(p.Exe, args...)
	raceLog := base + "_race"
	cmd.Env = append(os.Environ(), "GORACE=halt_on_error=0 exitcode=0 log_path="+raceLog)
	cmd.Env = append(cmd.Env, s.Env...)
	ef, _ := os.Create(errFile)
	of, _ := os.Create(outFile)
	cmd.Stderr = ef
	cmd.Stdout = of
	oc := ChildOutcome{Spec: s, Stderr: errFile, Journal: jrnFile, WorkDir: work, RaceLog: raceLog}
	if err := cmd.Start(); err != nil {
		ef.Close()
		of.Close()
		oc.ExitCode = -1
		return oc
	}
	done := make(chan error, 1)
	go func() { done <- cmd.Wait() }()
	var err error
	select {
	case err = <-done:
	case <-time.After(p.Timeout):
		oc.TimedOut = true
		cmd.Process.Signal(syscall.SIGQUIT) // goroutine dump to stderr file
		select {
		case err = <-done:
		case <-time.After(20 * time.Second):
			cmd.Process.Kill()
			err = <-done
		}
	}
	ef.Close()
	of.Close()
	if err != nil {
		if ee, ok := err.(*exec.ExitError); ok {
			oc.ExitCode = ee.ExitCode()
		} else {
			oc.ExitCode = -1
		}
	}
	if r, e := LoadResult(resFile); e == nil {
		oc.Res = r
	}
	return oc
}

var (
	reHex   = regexp.MustCompile(`0x[0-9a-fA-F]+`)
	reNum   = regexp.MustCompile(`\d+`)
	reSpace = regexp.MustCompile(`\s+`)
)

// NormMsg strips addresses and numbers from a panic message so that it can be part of a signature.
func NormMsg(s string) string {
	s = reHex.ReplaceAllString(s, "H")
	s = reNum.ReplaceAllString(s, "N")
	s = reSpace.ReplaceAllString(strings.TrimSpace(s), "_")
	if len(s) > 90 {
		s = s[:90]
	}
	return s
}

// ClassifyCrash inspects a dead child's stderr. kind is "panic", "fatal", "race", "hang-lib", "hang-other", "" (unknown).
func ClassifyCrash(stderrPath string, timedOut bool) (kind, sig, excerpt string) {
	b, _ := os.ReadFile(stderrPath)
	txt := string(b)
	if len(txt) > 1<<20 {
		txt = txt[:1<<20]
	}
	lines := strings.Split(txt, "\n")
	first := func(prefix string) string {
		for _, l := range lines {
			if strings.HasPrefix(l, prefix) {
				return l
			}
		}
		return ""
	}
	innermost := func() string {
		for _, l := range lines {
			t := strings.TrimSpace(l)
			if strings.HasPrefix(t, "gitee.com/xuesongtao/protoc-go-valid/") {
				if i := strings.Index(t, "("); i > 0 {
					t = t[:i]
				}
				return strings.TrimPrefix(t, "gitee.com/xuesongtao/protoc-go-valid/")
			}
		}
		return "?"
	}
	ex := txt
	if len(ex) > 3000 {
		ex = ex[:3000]
	}
	if timedOut {
		// SIGQUIT dump: is some goroutine blocked on a lock inside the library?
		blocks := strings.Split(txt, "\n\ngoroutine ")
		for _, bl := range blocks {
			if (strings.Contains(bl, "sync.(*RWMutex)") || strings.Contains(bl, "sync.(*Mutex)") || strings.Contains(bl, "[sync.")) &&
				strings.Contains(bl, "protoc-go-valid/valid.") {
				return "hang-lib", "hang|" + innermost(), ex
			}
		}
		// any other way of never coming back (a send on a full channel, a receive nobody answers, a select, a
		// semaphore): a goroutine that has been parked for minutes — the dump says so in its header, a goroutine
		// that is merely slow on a loaded machine is runnable or was parked a moment ago — and whose innermost frame
		// outside runtime / sync is a library function
		for _, bl := range blocks {
			ls := strings.Split(bl, "\n")
			if len(ls) < 2 || !strings.Contains(ls[0], " minutes") {
				continue
			}
			blocked := false
			for _, st := range []string{"[chan send", "[chan receive", "[select", "[semacquire", "[sync."} {
				if strings.Contains(ls[0], st) {
					blocked = true
				}
			}
			if !blocked {
				continue
			}
			for _, l := range ls[1:] {
				if strings.HasPrefix(l, "\t") || strings.HasPrefix(l, "runtime.") || strings.HasPrefix(l, "sync.") || strings.HasPrefix(l, "internal/") || strings.HasPrefix(l, "sync/atomic.") {
					continue
				}
				if strings.HasPrefix(l, "gitee.com/xuesongtao/protoc-go-valid/") {
					t := strings.TrimPrefix(l, "gitee.com/xuesongtao/protoc-go-valid/")
					if i := strings.Index(t, "("); i > 0 {
						t = t[:i]
					}
					return "hang-lib", "hang|" + t, ex
				}
				break
			}
		}
		return "hang-other", "", ex
	}
	if l := first("fatal error:"); l != "" {
		return "fatal", "fatal|" + innermost() + "|" + NormMsg(l), ex
	}
	if l := first("panic:"); l != "" {
		return "panic", "panic|" + innermost() + "|" + NormMsg(l), ex
	}
	if strings.Contains(txt, "WARNING: DATA RACE") {
		return "race", "race|" + innermost(), ex
	}
	return "", "", ex
}

// DefaultParent shards the property's Run function over child processes and merges.
func DefaultParent(p *ParentCtx) *Result {
	n := 1
	if p.Prop.Shards != nil {
		n = p.Prop.Shards(p.Tier)
	}
	if n < 1 {
		n = 1
	}
	specs := make([]ChildSpec, n)
	for i := range specs {
		// the shards are sequential workloads; 16 of them with 16 scheduler threads each spend their time in the
		// garbage collector's locks
		specs[i] = ChildSpec{Shard: i, Of: n, Mode: "shard", Env: []string{"GOMAXPROCS=" + strconv.Itoa(envInt("VMON_SHARD_PROCS", 3)), "GOGC=400"}}
	}
	outs := p.Spawn(specs, envInt("VMON_PAR", runtime.NumCPU()))
	return p.MergeOutcomes(outs)
}

// MergeOutcomes merges child results into p.Res and turns dead children into violations or
// inconclusive entries.
func (p *ParentCtx) MergeOutcomes(outs []ChildOutcome) *Result {
	for _, oc := range outs {
		if oc.Res != nil {
			p.Res.Merge(oc.Res)
		}
		p.Absorb(oc)
	}
	return p.Res
}

// Absorb classifies a child's exit status.
func (p *ParentCtx) Absorb(oc ChildOutcome) {
	if oc.ExitCode == 0 && oc.Res != nil && !oc.TimedOut {
		return
	}
	kind, sig, ex := ClassifyCrash(oc.Stderr, oc.TimedOut)
	last := lastLines(oc.Journal, 3)
	switch kind {
	case "panic", "fatal", "race", "hang-lib":
		p.Res.Violate(p.Prop.ID+"|process|"+sig, fmt.Sprintf("child (mode=%s shard=%d) died: %s; last journal entries: %s", oc.Spec.Mode, oc.Spec.Shard, kind, last),
			map[string]interface{}{"stderr_excerpt": ex, "journal_tail": last, "mode": oc.Spec.Mode, "shard": oc.Spec.Shard, "args": oc.Spec.Args})
	default:
		p.Res.Inconc(fmt.Sprintf("child mode=%s shard=%d exit=%d timedOut=%v without result; stderr: %.400s", oc.Spec.Mode, oc.Spec.Shard, oc.ExitCode, oc.TimedOut, ex))
	}
}

func lastLines(path string, n int) string {
	b, err := os.ReadFile(path)
	if err != nil {
		return ""
	}
	ls := strings.Split(strings.TrimRight(string(b), "\n"), "\n")
	if len(ls) > n {
		ls = ls[len(ls)-n:]
	}
	s := strings.Join(ls, " || ")
	if len(s) > 1500 {
		s = s[len(s)-1500:]
	}
	return s
}

// RunParent is the entry for `vmon run`. Returns the process exit code.
func RunParent(id string, tier Tier, seed int64, exe, cli, verifDir, tmpDir string) int {
	prop := Lookup(id)
	if prop == nil {
		fmt.Printf("INCONCLUSIVE property=%s unknown property\n", id)
		return ExitInconclusive
	}
	start := time.Now()
	to := 6 * time.Minute // per child; a watchdog, never a verdict by itself
	if tier == Thorough {
		to = 45 * time.Minute
	}
	if prop.Timeout != nil {
		to = prop.Timeout(tier)
	}
	pc := &ParentCtx{Prop: prop, Tier: tier, Seed: seed, Exe: exe, CLI: cli, TmpDir: tmpDir, Res: NewResult(id, -1), Timeout: to}
	var res *Result
	if prop.Parent != nil {
		res = prop.Parent(pc)
	} else {
		res = DefaultParent(pc)
	}
	if prop.Check != nil {
		prop.Check(res, tier)
	}
	if len(res.Samples) == 0 && len(res.Violations) == 0 {
		res.Inconc("the run recorded no sample case (evidence would not show what was explored)")
	}

	findings, err := LoadFindings(filepath.Join(verifDir, "KNOWN_FINDINGS.txt"))
	if err != nil {
		res.Inconc("cannot read KNOWN_FINDINGS.txt: " + err.Error())
	}
	open := OpenSigs(findings, id)

	// Triage violations by signature.
	sigs := []string{}
	bySig := map[string][]Violation{}
	for _, v := range res.Violations {
		if _, ok := bySig[v.Sig]; !ok {
			sigs = append(sigs, v.Sig)
		}
		bySig[v.Sig] = append(bySig[v.Sig], v)
	}
	sort.Strings(sigs)
	nviol := 0
	replayDir := filepath.Join(verifDir, "replay", id)
	for _, sig := range sigs {
		v := bySig[sig][0]
		if txt, ok := open[sig]; ok {
			fmt.Printf("KNOWN-FINDING: property=%s sig=%s %s (reproduced %d times, e.g. %s)\n", id, sig, txt, res.ViolationN[sig], oneLine(v.Detail, 300))
			continue
		}
		nviol++
		os.MkdirAll(replayDir, 0o755)
		rp := filepath.Join(replayDir, fmt.Sprintf("%d.json", nviol))
		data, _ := json.MarshalIndent(map[string]interface{}{
			"property": id, "sig": sig, "detail": v.Detail, "count": res.ViolationN[sig], "tier": tier, "seed": seed, "replay": v.Replay,
		}, "", " ")
		os.WriteFile(rp, data, 0o644)
		fmt.Printf("VIOLATION property=%s replay=%s\n", id, rp)
		fmt.Printf("  sig=%s count=%d\n  %s\n", sig, res.ViolationN[sig], oneLine(v.Detail, 1200))
	}

	verdict := "held on everything explored"
	code := ExitOK
	if nviol > 0 {
		verdict = "violated"
		code = ExitViolation
	} else if len(res.Inconclusive) > 0 {
		verdict = "inconclusive"
		code = ExitInconclusive
		for _, m := range res.Inconclusive {
			fmt.Printf("INCONCLUSIVE property=%s %s\n", id, oneLine(m, 600))
		}
	}
	exh := false
	if prop.Exhaustive != nil {
		exh = prop.Exhaustive(tier)
	}
	evPath := filepath.Join(verifDir, "evidence", id+".json")
	if err := WriteEvidence(evPath, id, tier, seed, res, prop.Rule, exh, nil, time.Since(start), nviol, verdict); err != nil {
		fmt.Printf("INCONCLUSIVE property=%s cannot write evidence: %v\n", id, err)
		if code == ExitOK {
			code = ExitInconclusive
		}
	}
	fmt.Printf("%s tier=%s seed=%d: %s — evaluations=%d distinct_nontrivial=%d wall=%.1fs\n", id, tier, seed, verdict, res.Evaluations, res.DistinctLen(), time.Since(start).Seconds())
	return code
}

func oneLine(s string, max int) string {
	s = strings.ReplaceAll(s, "\n", "\\n")
	if len(s) > max {
		s = s[:max] + "…"
	}
	return s
}

// RunChild is the entry for `vmon child`.
func RunChild(c *Ctx, out string) int {
	prop := Lookup(c.Prop)
	if prop == nil {
		return ExitInconclusive
	}
	c.Res = NewResult(c.Prop, c.Shard)
	if pf := os.Getenv("VMON_CPUPROFILE"); pf != "" && c.Shard == 0 { // development aid: where does a workload spend its time
		if f, err := os.Create(pf); err == nil {
			pprof.StartCPUProfile(f)
			defer pprof.StopCPUProfile()
		}
	}
	prop.Run(c)
	if err := c.Res.Save(out); err != nil {
		fmt.Fprintln(os.Stderr, "save result:", err)
		return ExitInconclusive
	}
	return ExitOK
}
