package props

import (
	"fmt"
	"math/rand"
	"net/url"
	"os"
	"path/filepath"
	"reflect"
	"strings"

	"gitee.com/xuesongtao/protoc-go-valid/valid"
	"vmon/internal/clause"
	"vmon/internal/core"
	"vmon/internal/drive"
)

// C15 — custom messages replace the default text verbatim and can be extracted alone.

type c15Rule struct {
	Key  string
	Text string // rule text without message
	Fail string // a non-empty string value violating it
	Pass string
}

func c15Rules(dir, file string) []c15Rule {
	return []c15Rule{
		{"required", "required", "", "x"},
		{"to", "to=2~3", "a", "ab"}, {"ge", "ge=2", "a", "ab"}, {"le", "le=2", "abc", "ab"}, {"oto", "oto=1~3", "abc", "ab"},
		{"gt", "gt=1", "a", "ab"}, {"lt", "lt=3", "abc", "ab"}, {"eq", "eq=2", "a", "ab"}, {"noeq", "noeq=2", "ab", "a"},
		{"to", "to=2~3", "abcd", "abc"}, {"oto", "oto=1~3", "a", "ab"},
		{"in", "in=(a/b)", "c", "a"}, {"include", "include=(ab/cd)", "x", "xab"},
		{"phone", "phone", "1", "13540042617"}, {"email", "email", "x", "a@b.cc"}, {"idcard", "idcard", "5", "510000000000000000"},
		{"year", "year", "19", "1996"}, {"year2month", "year2month", "1996", "1996-09"}, {"date", "date", "1996-09", "1996-09-28"},
		{"datetime", "datetime", "x", "1996-09-28 23:00:00"}, {"date", "date=/", "1996-09-28", "1996/09/28"},
		{"int", "int", "1.5", "15"}, {"ints", "ints", "1,a", "1,2"}, {"float", "float", "1", "1.5"},
		{"re", "re='^a+$'", "b", "aa"}, {"re", "re='^(male|female)$'", "x", "male"}, {"re", "re='a|b'", "c", "b"}, {"re", "re='^(男|女)$'", "x", "女"}, {"ip", "ip", "1.2.3", "1.2.3.4"}, {"ipv4", "ipv4", "::1", "1.2.3.4"}, {"ipv6", "ipv6", "1.2.3.4", "::1"},
		{"unique", "unique", "a,a", "a,b"}, {"json", "json", "{", "{}"}, {"prefix", "prefix=ab", "xab", "abx"}, {"suffix", "suffix=ab", "abx", "xab"},
		// CJK (and byte-alias) characters in the rule VALUE: the label must follow the message alone
		{"in", "in=(男/女)", "x", "男"}, {"include", "include=(篮球/足球)", "x", "打篮球"}, {"prefix", "prefix=成都", "x成都", "成都x"}, {"suffix", "suffix=路", "路x", "x路"},
		{"re", "re='^测+$'", "b", "测测"}, {"ints", "ints=和", "1和a", "1和2"}, {"in", "in=(大/ħ)", "x", "大"}, {"include", "include=('必,须'/z)", "x", "a必,须"},
		{"file", "file", dir, file}, {"dir", "dir", file, dir},
		{"file", "file", filepath.Join(dir, "missing"), file}, {"dir", "dir", filepath.Join(dir, "missing"), dir},
	}
}

var c15Msgs = []string{"【必填】姓名不能为空", "“姓名”不能为空", "（必填）", "≥18 岁", "café 菜单", "①必填", "see the explain: column of the form", "年龄说明: 应该在 1-3 之间", "rate must be <= 100%", "折扣需在 5%-50% 之间", "%s %d %v", "ends with semicolon;", "必须正确;", "two trailing;;", "trailing blank ", "must be ok", "必须正确", "age 必须 ok", "x", "必", "a=b", "a|b", "'a,b'", "'必须,正确'", "msg_17",
	"level must be one of (low/mid/high)", "(x)", "a) b (c", "颜色需包含 (red/blue) 之一", " - starts with a blank", "  两个空格开头", " x",
	// the first and the last ideograph of the range that selects the Chinese label, alone
	"pick 一 of a/b/c", "ends with 龥", "一", "龥x", "㐀 and 龦 are outside"}

func init() {
	core.Register(&core.Prop{
		ID: "C15",
		Rule: "(A) every message-capable rule (32 keys, 44 rule/value rows incl. CJK rule values) x 32 messages (with round brackets, starting with blanks, CJK after other non-ASCII characters, containing a label word, containing %, ending in ; or a blank, ASCII, CJK, mixed, one rune, with = | and quoted comma) and no message x failing / passing value x carriers {struct tag, struct RM, Var, map, url}, plus every rule with every message on failing values of 256 / 257 / 300 / 5000 bytes, plus required with every message on keys absent from a map / query and on initialised-but-empty and nil collections in struct fields: the clause must show label(msg)+' '+msg verbatim instead of default wording; without message an explain:-labelled non-empty default text; " +
			"(B) GetOnlyExplainErr applied to real library errors of 1..8 clauses in every order pattern (k<=4 exhaustively, k<=8 random) over {Chinese-labelled, English default, English custom, unknown-rule (unlabelled), rule-writing error (unlabelled)} plus trailing group clauses. distinct = distinct error text fed to the extractor / distinct (rule,msg,carrier,fail) tuple; non-trivial = error with >=1 clause",
		Shards: func(t core.Tier) int { return 8 },
		Run:    runC15,
		Check: func(r *core.Result, t core.Tier) {
			cls := []string{"zh", "en", "cu", "unk", "wr"}
			for _, a := range cls {
				for _, b := range cls {
					if r.Counters["adjacent|"+a+">"+b] < 100 {
						r.Inconc(fmt.Sprintf("label-class adjacency under-observed: %s>%s=%d", a, b, r.Counters["adjacent|"+a+">"+b]))
					}
				}
			}
			if r.Counters["message_clauses_checked"] < 1000 {
				r.Inconc("too few custom-message clauses checked")
			}
		},
	})
}

func runC15(c *core.Ctx) {
	res := c.Res
	res.Assume("messages and values contain no clause separator '; ' and no explanation label text; default wording is not pinned word for word")
	dir := filepath.Join(c.WorkDir, "d")
	os.MkdirAll(dir, 0o755)
	file := filepath.Join(dir, "f.txt")
	os.WriteFile(file, []byte("x"), 0o644)

	// ---- (A) messages verbatim
	rules := c15Rules(dir, file)
	carriers := []string{drive.StructTag, drive.StructRM, drive.Var, drive.MapT, drive.UrlEnc}
	wantPath := map[string]string{drive.StructTag: "F", drive.StructRM: "F", drive.Var: "", drive.MapT: "map[k]", drive.UrlEnc: "k"}
	idx := 0
	for _, r := range rules {
		for mi := -1; mi < len(c15Msgs); mi++ {
			for _, fail := range []bool{true, false} {
				for _, cr := range carriers {
					idx++
					if !c.Mine(idx) {
						continue
					}
					text := r.Text
					msg := ""
					if mi >= 0 {
						msg = c15Msgs[mi]
						text += "|" + msg
					}
					val := r.Pass
					if fail {
						val = r.Fail
					}
					if r.Key == "required" && (cr == drive.UrlEnc) && fail {
						// "k=" with an empty value is expressible in a URL
					}
					out, ok := drive.Carry(cr, reflect.ValueOf(val), text)
					if !ok {
						continue
					}
					res.Eval()
					sig := func(kind string) string { return "C15|message|" + r.Key + "|" + kind + "|" + cr }
					wit := map[string]string{"carrier": cr, "rule": text, "value": val, "library_returned": out.String()}
					if out.Panic != "" {
						res.Violate(sig("panic"), fmt.Sprintf("%s %q on %q panicked: %s", cr, text, val, out.Panic), wit)
						continue
					}
					if !fail {
						if !out.Nil {
							res.Violate(sig("passing-value-rejected"), fmt.Sprintf("%s: %q on passing value %q returned %s", cr, text, val, out), wit)
						}
						continue
					}
					res.DistinctEnum(1)
					cls := clause.Parse(out.Err)
					if out.Nil || len(cls) != 1 {
						res.Violate(sig("clause-count"), fmt.Sprintf("%s: %q on failing value %q returned %s (want exactly one clause)", cr, text, val, out), wit)
						continue
					}
					cl := cls[0]
					if cl.Kind != clause.Input || cl.Path != wantPath[cr] || cl.Echo != val {
						res.Violate(sig("path-or-echo"), fmt.Sprintf("%s: %q on %q returned %s (want input clause with path %q echo %q)", cr, text, val, out, wantPath[cr], val), wit)
						continue
					}
					if msg != "" {
						res.Count("message_clauses_checked")
						if cl.Label != clause.LabelFor(msg) || cl.Text != msg {
							missing := ""
							if strings.HasSuffix(r.Fail, "missing") {
								missing = "|missing-path"
							}
							res.Violate(sig("message-not-verbatim")+missing, fmt.Sprintf("%s: %q on %q returned %s; want explanation %q", cr, text, val, out, clause.LabelFor(msg)+" "+msg), wit)
						}
					} else {
						res.Count("default_clauses_checked")
						bad := cl.Text == ""
						if !strings.HasSuffix(r.Fail, "missing") && cl.Label != clause.LabelEn {
							bad = true
						}
						for _, m := range c15Msgs {
							if cl.Text == m {
								bad = true
							}
						}
						if bad {
							res.Violate(sig("default-wording"), fmt.Sprintf("%s: %q on %q returned %s; want an explain:-labelled non-empty default text", cr, text, val, out), wit)
						}
					}
					if idx%997 == 0 {
						res.Sample("message", 3, wit)
					}
				}
			}
		}
	}

	// ---- (A3) long failing values (beyond 256 bytes, beyond 4 KB): whatever a rule does with the
	// echo of a long input, the message is the caller's
	a3 := 0
	for _, r := range []string{"json", "email", "int", "float", "re='^a+$'", "in=(a/b)", "include=(ab/cd)", "to=2~3", "le=2", "eq=2", "phone", "ip", "ipv4", "ipv6", "idcard", "year", "date", "datetime", "unique", "ints", "prefix=ab", "suffix=ab", "file", "dir"} {
		for _, n := range []int{256, 257, 300, 5000} {
			val := "{" + strings.Repeat("x", n-1)
			switch r {
			case "unique":
				val = "a,a," + strings.Repeat("x", n-4)
			case "ints":
				val = "1,z" + strings.Repeat("x", n-3)
			}
			for _, msg := range c15Msgs {
				for _, cr := range []string{drive.Var, drive.StructRM, drive.MapT, drive.UrlEnc} {
					a3++
					if !c.Mine(a3) {
						continue
					}
					text := r + "|" + msg
					out, ok := drive.Carry(cr, reflect.ValueOf(val), text)
					if !ok {
						continue
					}
					res.Eval()
					res.DistinctEnum(1)
					res.Count("message_clauses_checked")
					res.Count("long_value_cases")
					key := ruleKeyOf(r)
					wit := map[string]string{"carrier": cr, "rule": text, "value_length": fmt.Sprint(len(val)), "library_returned": trunc(out.String(), 400)}
					if out.Panic != "" {
						res.Violate("C15|message|"+key+"|panic|"+cr, fmt.Sprintf("%s %q on a %d-byte value panicked: %s", cr, text, len(val), out.Panic), wit)
						continue
					}
					cls := clause.Parse(out.Err)
					if out.Nil || len(cls) != 1 {
						res.Violate("C15|message|"+key+"|clause-count|"+cr, fmt.Sprintf("%s: %q on a failing %d-byte value returned %s (want exactly one clause)", cr, text, len(val), trunc(out.String(), 300)), wit)
						continue
					}
					if cl := cls[0]; cl.Label != clause.LabelFor(msg) || cl.Text != msg {
						res.Violate("C15|message|"+key+"|message-not-verbatim|long-value|"+cr, fmt.Sprintf("%s: %q on a %d-byte value returned %s; want explanation %q", cr, text, len(val), trunc(out.String(), 300), clause.LabelFor(msg)+" "+msg), wit)
					}
				}
			}
		}
	}

	// ---- (A5) a rule with a message FOLLOWED by a rule without one on the same field: each clause
	// has the wording of its own rule (no message is carried over to the next rule)
	a5 := 0
	for _, r := range rules {
		if r.Key == "required" || r.Key == "file" || r.Key == "dir" {
			continue
		}
		for mi, msg := range c15Msgs {
			if mi%4 != 0 || strings.Contains(msg, ",") {
				continue
			}
			for _, cr := range []string{drive.StructRM, drive.StructTag, drive.StructCtx, drive.Var, drive.MapT} {
				a5++
				if !c.Mine(a5) {
					continue
				}
				// (i) empty value: only the bare required fires, with the default wording
				text := r.Text + "|" + msg + ",required"
				out, ok := drive.Carry(cr, reflect.ValueOf(""), text)
				if ok {
					res.Eval()
					res.DistinctEnum(1)
					res.Count("message_then_bare_rule_cases")
					cls := clause.Parse(out.Err)
					wit := map[string]string{"carrier": cr, "rule": text, "value": "", "library_returned": out.String()}
					if out.Panic != "" || out.Nil || len(cls) != 1 || cls[0].Text == msg || cls[0].Text == "" || cls[0].Label != clause.LabelEn {
						res.Violate("C15|message|"+r.Key+"|carried-over-to-next-rule|"+cr, fmt.Sprintf("%s: %q on an empty value returned %s; want exactly one clause, the default wording of required under the English label", cr, text, out), wit)
					}
				}
				// (ii) failing value: the rule's clause carries its message, the bare to=99~100 behind it its default wording
				text2 := r.Text + "|" + msg + ",eq=77"
				out2, ok2 := drive.Carry(cr, reflect.ValueOf(r.Fail), text2)
				if ok2 && r.Fail != "" {
					res.Eval()
					cls := clause.Parse(out2.Err)
					wit := map[string]string{"carrier": cr, "rule": text2, "value": r.Fail, "library_returned": out2.String()}
					if out2.Panic != "" || out2.Nil || len(cls) != 2 || cls[0].Text != msg || cls[1].Text == msg || cls[1].Text == "" {
						res.Violate("C15|message|"+r.Key+"|two-rules-two-wordings|"+cr, fmt.Sprintf("%s: %q on %q returned %s; want the message on the first clause and the default wording on the second", cr, text2, r.Fail, out2), wit)
					}
				}
			}
		}
	}

	// ---- (A4) values that are not strings: whenever a rule the documentation applies to that kind is
	// reported as violated, the clause carries the message (the verdict itself is C01/C05's business)
	a4 := 0
	type nv struct {
		rules []string
		v     interface{}
	}
	nonStr := []nv{
		{[]string{"int", "in=(1/2)", "eq=3", "ge=9", "float"}, true},
		{[]string{"in=(1/2)", "eq=3", "lt=2", "noeq=7", "to=1~2", "float"}, 7},
		{[]string{"in=(1/2)", "eq=3", "lt=2", "le=1", "oto=1~2", "int"}, 7.5},
		{[]string{"in=(1/2)", "gt=300", "int"}, uint8(200)},
		{[]string{"in=(1/2)", "ge=3", "float"}, float32(2.5)},
		{[]string{"unique", "ints", "eq=1", "le=2", "to=5~6"}, []string{"a", "a", "x"}},
		{[]string{"unique", "eq=1", "gt=5"}, []int{4, 4, 4}},
		{[]string{"unique", "ints", "lt=2"}, [2]string{"q", "q"}},
		{[]string{"unique", "le=1"}, []float64{0.5, 0.5}},
		{[]string{"unique", "ge=3"}, []bool{true, true}},
	}
	// exist takes a message like every other rule; on a field it has nothing to descend into (a scalar, a slice of
	// scalars) the library answers with a clause of its own: if it does, that clause follows the same message rule
	nonStr = append(nonStr, nv{[]string{"exist"}, "x"}, nv{[]string{"exist"}, int64(-4)}, nv{[]string{"exist"}, map[string]int{"k": 1}})
	for i := range nonStr {
		if len(nonStr[i].rules) > 1 {
			nonStr[i].rules = append(nonStr[i].rules, "exist")
		}
	}
	for _, x := range nonStr {
		for _, cr := range []string{drive.StructRM, drive.StructCtx, drive.StructTag} {
			out, ok := drive.Carry(cr, reflect.ValueOf(x.v), "exist")
			if !ok || out.Nil || out.Panic != "" || !c.Mine(len(cr)) {
				continue
			}
			if cls := clause.Parse(out.Err); len(cls) == 1 && cls[0].Kind == clause.Input {
				res.Count("default_clauses_checked")
				bad := cls[0].Text == "" || cls[0].Label != clause.LabelEn
				for _, m := range c15Msgs {
					bad = bad || cls[0].Text == m
				}
				if bad {
					res.Violate("C15|message|exist|default-wording|"+cr, fmt.Sprintf("%s: exist (no message) on %T %v returned %s; want an explain:-labelled non-empty default text", cr, x.v, x.v, out),
						map[string]string{"carrier": cr, "rule": "exist", "value": fmt.Sprintf("%T %v", x.v, x.v), "library_returned": out.String()})
				}
			}
		}
	}
	for _, x := range nonStr {
		for _, r := range x.rules {
			for _, msg := range c15Msgs {
				for _, cr := range []string{drive.Var, drive.StructRM, drive.StructCtx, drive.MapT} {
					a4++
					if !c.Mine(a4) {
						continue
					}
					text := r + "|" + msg
					rv := reflect.ValueOf(x.v)
					out, ok := drive.Carry(cr, rv, text)
					if !ok || out.Nil {
						continue
					}
					res.Eval()
					res.DistinctEnum(1)
					key := ruleKeyOf(r)
					wit := map[string]string{"carrier": cr, "rule": text, "value": fmt.Sprintf("%T %v", x.v, x.v), "library_returned": trunc(out.String(), 400)}
					if out.Panic != "" {
						res.Violate("C15|message|"+key+"|panic|"+cr, fmt.Sprintf("%s %q on %T %v panicked: %s", cr, text, x.v, x.v, out.Panic), wit)
						continue
					}
					cls := clause.Parse(out.Err)
					if len(cls) != 1 || cls[0].Kind != clause.Input {
						continue // a rule-writing complaint, or the kind is not one the rule is documented for
					}
					res.Count("message_clauses_checked")
					res.Count("non_string_value_cases")
					if cl := cls[0]; cl.Label != clause.LabelFor(msg) || cl.Text != msg {
						res.Violate("C15|message|"+key+"|message-not-verbatim|"+rv.Kind().String()+"|"+cr, fmt.Sprintf("%s: %q on %T %v returned %s; want explanation %q", cr, text, x.v, x.v, trunc(out.String(), 300), clause.LabelFor(msg)+" "+msg), wit)
					}
				}
			}
		}
	}

	// ---- (A2) required with a message where "empty" is not a zero scalar: a key that is absent from the
	// map / the query (among other keys, or alone), and collections that are initialised but empty
	a2 := 0
	for mi, msg := range c15Msgs {
		text := "required|" + msg
		type shape struct {
			name string
			run  func() drive.Out
		}
		shapes := []shape{
			{"map-key-absent", func() drive.Out {
				return drive.Call(func() error { return valid.Map(map[string]string{"other": "x"}, valid.RM{"k": text}) })
			}},
			{"map-empty-map", func() drive.Out {
				return drive.Call(func() error { return valid.Map(map[string]string{}, valid.RM{"k": text}) })
			}},
			{"map-iface-key-absent", func() drive.Out {
				return drive.Call(func() error { return valid.Map(map[string]interface{}{"other": 1}, valid.RM{"k": text}) })
			}},
			{"slice-map-key-absent", func() drive.Out {
				return drive.Call(func() error { return valid.Map([]map[string]string{{"other": "x"}}, valid.RM{"k": text}) })
			}},
			{"url-key-absent", func() drive.Out {
				return drive.Call(func() error { return valid.Url("http://h.example/p?other=x", valid.RM{"k": text}) })
			}},
			{"url-key-absent-encoded", func() drive.Out {
				return drive.Call(func() error { return valid.Url(url.QueryEscape("http://h.example/p?other=x"), valid.RM{"k": text}) })
			}},
			// an absent key with several rules: the one clause is required's, with required's own message (or, below,
			// its default wording) — whatever messages the skipped rules carry
			{"map-key-absent-multi", func() drive.Out {
				return drive.Call(func() error {
					return valid.Map(map[string]string{"other": "x"}, valid.RM{"k": text + ",to=1~3|m_other,phone"})
				})
			}},
			{"map-key-absent-multi-lead", func() drive.Out {
				return drive.Call(func() error {
					return valid.Map(map[string]string{"other": "x"}, valid.RM{"k": "to=1~3|其他 m_other," + text})
				})
			}},
			{"url-key-absent-multi", func() drive.Out {
				return drive.Call(func() error {
					return valid.Url("http://h.example/p?other=x", valid.RM{"k": text + ",to=1~3,phone|m_other"})
				})
			}},
			{"slice-map-key-absent-multi", func() drive.Out {
				return drive.Call(func() error {
					return valid.Map([]map[string]string{{"other": "x"}}, valid.RM{"k": "int|m_other," + text + ",le=3"})
				})
			}},
			{"map-key-absent-bare-then-msg DEFAULT", func() drive.Out {
				return drive.Call(func() error {
					return valid.Map(map[string]string{"other": "x"}, valid.RM{"k": "required,to=1~3|" + msg})
				})
			}},
			{"url-key-absent-bare-then-msg DEFAULT", func() drive.Out {
				return drive.Call(func() error { return valid.Url("http://h.example/p?other=x", valid.RM{"k": "required,phone|" + msg}) })
			}},
			{"url-key-empty", func() drive.Out {
				return drive.Call(func() error { return valid.Url("http://h.example/p?k=&other=x", valid.RM{"k": text}) })
			}},
		}
		for _, v := range []interface{}{[]string{}, make([]int, 0, 4), map[string]int{}, [0]int{}, []string(nil), map[string]int(nil), [](*int){}, []struct{ A int }{}, map[int]struct{ A int }{}} {
			v := v
			for _, cr := range []string{drive.StructRM, drive.StructTag, drive.StructCtx} {
				cr := cr
				rv := reflect.ValueOf(v)
				nm := "nil"
				if rv.Kind() == reflect.Array || !rv.IsNil() {
					nm = "empty"
				}
				shapes = append(shapes, shape{cr + " " + nm + " " + rv.Type().String(), func() drive.Out {
					o, _ := drive.Carry(cr, rv, text)
					return o
				}})
			}
		}
		for _, sh := range shapes {
			a2++
			if !c.Mine(a2) {
				continue
			}
			if strings.HasPrefix(sh.name, drive.StructTag) && !drive.TagSafe(text) {
				continue
			}
			out := sh.run()
			res.Eval()
			res.DistinctEnum(1)
			res.Count("message_clauses_checked")
			res.Count("required_on_absent_or_empty_collection")
			wit := map[string]string{"shape": sh.name, "rule": text, "library_returned": out.String()}
			sg := "C15|message|required|"
			if out.Panic != "" {
				res.Violate(sg+"panic|"+strings.Fields(sh.name)[0], fmt.Sprintf("%s under %q panicked: %s", sh.name, text, out.Panic), wit)
				continue
			}
			cls := clause.Parse(out.Err)
			if out.Nil || len(cls) != 1 {
				res.Violate(sg+"clause-count|"+strings.Fields(sh.name)[0], fmt.Sprintf("%s under %q returned %s (want exactly one clause)", sh.name, text, out), wit)
				continue
			}
			if strings.HasSuffix(sh.name, " DEFAULT") {
				// required carries no message here: its clause has the default wording, not the neighbour's message
				if cl := cls[0]; cl.Text == msg || cl.Label != clause.LabelEn || cl.Text == "" {
					res.Violate(sg+"default-wording-replaced|"+strings.Fields(sh.name)[0], fmt.Sprintf("%s: required without a message, followed by a rule with the message %q, returned %s; want required's default wording", sh.name, msg, out), wit)
				}
				continue
			}
			if cl := cls[0]; cl.Label != clause.LabelFor(msg) || cl.Text != msg {
				res.Violate(sg+"message-not-verbatim|"+strings.Fields(sh.name)[0], fmt.Sprintf("%s under %q returned %s; want explanation %q", sh.name, text, out, clause.LabelFor(msg)+" "+msg), wit)
			}
			if got, pan, _ := drive.CallStr(func() string { return valid.GetOnlyExplainErr(out.Err) }); (got != msg || pan != "") && !strings.Contains(msg, clause.LabelEn) && !strings.Contains(msg, clause.LabelZh) {
				res.Violate(sg+"extractor|"+strings.Fields(sh.name)[0], fmt.Sprintf("%s under %q returned %s; GetOnlyExplainErr of it = %q (panic %q), want %q", sh.name, text, out, got, pan, msg), wit)
			}
			_ = mi
		}
	}

	// ---- (B) the explanation extractor on real library output
	// clause classes producible in any position through field order
	type cc struct {
		name, rule string
		labelled   bool
	}
	classes := []cc{
		{"zh", "required|必填%d", true}, {"en", "required", true}, {"cu", "required|need_%d", true},
		{"unk", "nosuchrule%d", false}, {"wr", "to=abc", false},
		{"ns", "email", true}, // a string-only rule on an integer field: "it must is string", a clause like any other
	}
	rng := c.Rng("extractor")
	runPattern := func(pat []int, groups int) {
		fields := []reflect.StructField{}
		echoVals := map[int]string{}
		for i, p := range pat {
			rule := classes[p].rule
			if strings.Contains(rule, "%d") {
				rule = fmt.Sprintf(rule, i)
			}
			// very short explanations (one byte, one rune, two bytes): length bookkeeping in the
			// extractor is most fragile there
			if rng.Intn(3) == 0 {
				switch classes[p].name {
				case "cu":
					rule = "required|" + []string{"x", "y", "ab", "q;", "see the explain: column", "rate <= 100%"}[rng.Intn(6)]
				case "zh":
					rule = "required|" + []string{"必", "填", "必x", "年龄说明: 应该在 1-3 之间", "参见 explain: 一栏"}[rng.Intn(5)]
				}
			}
			// one field in three fails a length rule instead, so that the clause echoes a non-empty
			// value — with letters whose lower-case form has another UTF-8 length (İ K Ω ẞ Ⱥ)
			if rng.Intn(3) == 0 && (classes[p].name == "en" || classes[p].name == "cu" || classes[p].name == "zh") {
				rule = "le=2" + strings.TrimPrefix(rule, "required")
				echoVals[i] = []string{"İstanbul", "K-273", "Ω ẞ Ⱥ", "İİİ K"}[rng.Intn(4)]
			}
			ft := reflect.TypeOf("")
			if classes[p].name == "ns" {
				ft = reflect.TypeOf(int(0))
				rule = []string{"email", "phone", "date", "ip", "prefix=a"}[rng.Intn(5)]
			}
			fields = append(fields, reflect.StructField{Name: fmt.Sprintf("F%d", i), Type: ft, Tag: reflect.StructTag(`valid:"` + rule + `"`)})
		}
		for g := 0; g < groups; g++ {
			for m := 0; m < 2; m++ {
				fields = append(fields, reflect.StructField{Name: fmt.Sprintf("G%d_%d", g, m), Type: reflect.TypeOf(""), Tag: reflect.StructTag(fmt.Sprintf(`valid:"either=%d"`, g))})
			}
		}
		st := reflect.StructOf(fields)
		obj := reflect.New(st)
		for i, p := range pat {
			if classes[p].name == "wr" { // the rule function only runs on a non-empty value
				obj.Elem().Field(i).SetString("v")
			}
			if classes[p].name == "ns" {
				obj.Elem().Field(i).SetInt(7)
			}
			if ev, ok := echoVals[i]; ok {
				obj.Elem().Field(i).SetString(ev)
			}
		}
		out := drive.Call(func() error { return valid.Struct(obj.Interface()) })
		res.Eval()
		if out.Panic != "" || out.Nil {
			res.Violate("C15|extractor|setup", fmt.Sprintf("building the error failed: %s", out), nil)
			return
		}
		cls := clause.Parse(out.Err)
		if len(cls) != len(pat)+groups {
			res.Violate("C15|extractor|setup-clauses", fmt.Sprintf("expected %d clauses, library returned %q", len(pat)+groups, out.Err), nil)
			return
		}
		want := []string{}
		for i, cl := range cls {
			if cl.Label != "" {
				want = append(want, cl.Text)
			}
			if i > 0 && i < len(pat) {
				res.Count("adjacent|" + classes[pat[i-1]].name + ">" + classes[pat[i]].name)
			}
		}
		wantS := strings.Join(want, clause.Sep)
		got, pan, _ := drive.CallStr(func() string { return valid.GetOnlyExplainErr(out.Err) })
		res.Distinct(out.Err)
		names := []string{}
		for _, p := range pat {
			names = append(names, classes[p].name)
		}
		for g := 0; g < groups; g++ {
			names = append(names, "group")
		}
		wit := map[string]interface{}{"pattern": names, "error": out.Err, "extracted": got, "want": wantS}
		// signature: the first adjacent pair / position that distinguishes the failure classes
		kind := ""
		switch {
		case pan != "":
			kind = "panic"
		case got != wantS:
			kind = "wrong-text"
		}
		if kind != "" {
			cause := "other"
			sawEn := false
			for i, n := range names {
				if !classes2labelled(n) && i+1 < len(names) && classes2labelled(names[i+1]) {
					cause = "unlabelled-before-labelled"
					break
				}
				if n == "en" || n == "cu" || n == "group" {
					sawEn = true
				}
				if n == "zh" && sawEn {
					cause = "zh-after-en"
					break
				}
			}
			if cause == "other" && len(names) > 0 && !classes2labelled(names[len(names)-1]) {
				cause = "unlabelled-last"
			}
			res.Violate("C15|extractor|"+kind+"|"+cause, fmt.Sprintf("GetOnlyExplainErr(%q) = %q (panic %q), want %q; pattern %v", out.Err, got, pan, wantS, names), wit)
			return
		}
		res.Count("extractor_agreed")
		if len(pat) == 3 && pat[0] == 0 && pat[1] == 3 && pat[2] == 2 {
			res.Sample("extractor", 1, wit)
		}
	}
	// every pattern of length 1..4 (6^1+..+6^4 = 1554), with 0 and 1 trailing group clauses
	n := 0
	for k := 1; k <= 4; k++ {
		tot := 1
		for i := 0; i < k; i++ {
			tot *= len(classes)
		}
		for code := 0; code < tot; code++ {
			n++
			if !c.Mine(n) {
				continue
			}
			pat := make([]int, k)
			x := code
			for i := range pat {
				pat[i] = x % len(classes)
				x /= len(classes)
			}
			runPattern(pat, 0)
			runPattern(pat, 1)
		}
	}
	R := c.Pick(6000, 200000)
	for i := 0; i < R; i++ {
		k := 5 + rng.Intn(4)
		pat := make([]int, k)
		for j := range pat {
			pat[j] = rng.Intn(len(classes))
		}
		runPattern(pat, rng.Intn(3))
	}
	// group-only errors and the empty string
	runPattern([]int{}, 1)
	runPattern([]int{}, 2)
	if got, pan, _ := drive.CallStr(func() string { return valid.GetOnlyExplainErr("") }); got != "" || pan != "" {
		res.Violate("C15|extractor|empty", fmt.Sprintf("GetOnlyExplainErr(\"\")=%q panic=%q", got, pan), nil)
	}
	_ = rand.Int
}

func classes2labelled(n string) bool {
	return n == "zh" || n == "en" || n == "cu" || n == "ns" || n == "group"
}
