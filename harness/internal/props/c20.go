package props

import (
	"bytes"
	"encoding/json"
	"fmt"
	"math/big"
	"math/rand"
	"reflect"
	"sort"
	"strings"

	"gitee.com/xuesongtao/protoc-go-valid/valid"
	"vmon/internal/core"
	"vmon/internal/drive"
	"vmon/internal/gen"
)

// C20 — the struct dumper emits well-formed JSON matching the standard encoder.
// Oracle: encoding/json (trusted) + the documented deviations applied by a type-guided walk.

// expectedDoc transforms the decoded standard encoding by the documented deviations.
func c20Expected(doc interface{}, t reflect.Type) interface{} {
	switch t.Kind() {
	case reflect.Bool:
		if b, ok := doc.(bool); ok {
			if b {
				return "true"
			}
			return "false"
		}
		return doc
	case reflect.Ptr:
		if doc == nil {
			return nil
		}
		return c20Expected(doc, t.Elem())
	case reflect.Slice, reflect.Array:
		if doc == nil {
			return []interface{}{}
		}
		arr, ok := doc.([]interface{})
		if !ok {
			return doc
		}
		out := make([]interface{}, len(arr))
		for i := range arr {
			out[i] = c20Expected(arr[i], t.Elem())
		}
		return out
	case reflect.Map:
		if doc == nil {
			return map[string]interface{}{}
		}
		m, ok := doc.(map[string]interface{})
		if !ok {
			return doc
		}
		out := map[string]interface{}{}
		for k, v := range m {
			out[k] = c20Expected(v, t.Elem())
		}
		return out
	case reflect.Struct:
		m, ok := doc.(map[string]interface{})
		if !ok {
			return doc
		}
		out := map[string]interface{}{}
		for i := 0; i < t.NumField(); i++ {
			f := t.Field(i)
			if f.PkgPath != "" {
				continue
			}
			if v, present := m[f.Name]; present {
				out[f.Name] = c20Expected(v, f.Type)
			}
		}
		return out
	}
	return doc
}

func docEqual(a, b interface{}) bool {
	switch x := a.(type) {
	case nil:
		return b == nil
	case string:
		y, ok := b.(string)
		return ok && x == y
	case bool:
		y, ok := b.(bool)
		return ok && x == y
	case json.Number:
		y, ok := b.(json.Number)
		if !ok {
			return false
		}
		rx, ok1 := new(big.Rat).SetString(string(x))
		ry, ok2 := new(big.Rat).SetString(string(y))
		return ok1 && ok2 && rx.Cmp(ry) == 0
	case []interface{}:
		y, ok := b.([]interface{})
		if !ok || len(x) != len(y) {
			return false
		}
		for i := range x {
			if !docEqual(x[i], y[i]) {
				return false
			}
		}
		return true
	case map[string]interface{}:
		y, ok := b.(map[string]interface{})
		if !ok || len(x) != len(y) {
			return false
		}
		for k, v := range x {
			w, ok := y[k]
			if !ok || !docEqual(v, w) {
				return false
			}
		}
		return true
	}
	return false
}

func decodeNum(s []byte) (interface{}, error) {
	d := json.NewDecoder(bytes.NewReader(s))
	d.UseNumber()
	var v interface{}
	if err := d.Decode(&v); err != nil {
		return nil, err
	}
	if d.More() {
		return nil, fmt.Errorf("trailing data")
	}
	return v, nil
}

// shape classes present in a value (for minimum-observation counters)
func c20Classes(v reflect.Value, out map[string]bool, depth int) {
	t := v.Type()
	switch t.Kind() {
	case reflect.Struct:
		if t.NumField() == 0 {
			out["empty_struct"] = true
		} else {
			allU := true
			for i := 0; i < t.NumField(); i++ {
				if t.Field(i).PkgPath == "" {
					allU = false
				}
			}
			if allU {
				out["all_unexported"] = true
			} else if t.Field(0).PkgPath != "" {
				out["first_unexported"] = true
			}
		}
		if depth >= 3 {
			out["depth3"] = true
		}
		for i := 0; i < t.NumField(); i++ {
			if t.Field(i).PkgPath == "" {
				c20Classes(v.Field(i), out, depth+1)
			}
		}
	case reflect.Ptr:
		if v.IsNil() {
			out["nil_ptr"] = true
		} else {
			c20Classes(v.Elem(), out, depth)
		}
	case reflect.Slice, reflect.Array:
		if t.Kind() == reflect.Slice && v.IsNil() {
			out["nil_slice"] = true
		} else if v.Len() == 0 {
			out["empty_slice"] = true
		}
		for i := 0; i < v.Len(); i++ {
			e := v.Index(i)
			if e.Kind() == reflect.Ptr && e.IsNil() {
				out["nil_ptr_in_slice"] = true
			}
			c20Classes(e, out, depth)
		}
	case reflect.Map:
		if v.IsNil() {
			out["nil_map"] = true
		} else if v.Len() == 0 {
			out["empty_map"] = true
		}
		if t.Key().Kind() == reflect.String && v.Len() >= 2 {
			out["multi_string_map"] = true
		}
		if t.Key().Kind() != reflect.String && v.Len() >= 1 {
			out["int_key_map"] = true
		}
		it := v.MapRange()
		for it.Next() {
			c20Classes(it.Value(), out, depth)
		}
	case reflect.Bool:
		out["bool"] = true
	}
}

var c20MinClasses = []string{"empty_struct", "first_unexported", "all_unexported", "multi_string_map", "nil_ptr_in_slice", "int_key_map", "nil_map", "nil_slice", "nil_ptr", "bool", "depth3"}

func init() {
	core.Register(&core.Prop{
		ID: "C20",
		Rule: "random struct types synthesised with reflect.StructOf (0-8 fields, depth<=4; string, bool, all int/uint kinds except []uint8, float64 of moderate magnitude, float32 restricted to k/8, struct, *struct, slices/arrays/maps with string or integer keys of those, unexported fields) x random values (nil / empty / populated at every node); " +
			"GetDumpStructStr output must be valid JSON and decode to the document that encoding/json produces after the documented deviations (bool as string, nil slice [], nil map {}, nil pointer null). distinct = distinct (type string, standard encoding); non-trivial = value has at least one exported field",
		Shards: func(t core.Tier) int { return 16 },
		Run:    runC20,
		Check: func(r *core.Result, t core.Tier) {
			for _, k := range c20MinClasses {
				if r.Counters["class|"+k] < 300 {
					r.Inconc(fmt.Sprintf("shape class under-observed: %s=%d", k, r.Counters["class|"+k]))
				}
			}
		},
	})
}

func c20Opts() (gen.TypeOpts, gen.ValueOpts) {
	leaf := []reflect.Type{gen.TString, gen.TBool, gen.TInt, gen.TInt8, gen.TInt16, gen.TInt32, gen.TInt64, gen.TUint, gen.TUint16, gen.TUint32, gen.TUint64, gen.TFloat32, gen.TFloat64, gen.TString, gen.TInt, gen.TUintptr, gen.TGInt, gen.TGUint, gen.TGStr}
	to := gen.TypeOpts{MaxFields: 6, MaxDepth: 3, Leaf: leaf, Unexported: true, EmptyStruct: true, Ptr: true, Slices: true, Arrays: true, Maps: true, SliceOfSlice: true, ContainerOfLeaf: true}
	vo := gen.ValueOpts{PZero: 0.2, PEmpty: 0.2, MaxLen: 3, NilElems: true,
		Str: func(rng *rand.Rand) string {
			if rng.Intn(6) != 0 {
				return gen.DefaultStr(rng)
			}
			// characters that are legal inside a JSON string WITHOUT an escape but that string
			// quoting routines written for other syntaxes treat specially
			rare := []string{"\x7f", "\U000F0000", "\U000E0001", "\u00ad", "\u2028", "😀", "\u200b", "\ufeff", "'", "<>&", "/"}
			return gen.DefaultStr(rng) + rare[rng.Intn(len(rare))] + gen.DefaultStr(rng)
		},
		Float: func(rng *rand.Rand, bits int) float64 {
			if bits == 32 {
				return float64(rng.Intn(40000)-20000) / 8
			}
			switch rng.Intn(4) {
			case 0:
				return float64(rng.Intn(2000)-1000) / 8
			case 1:
				return (rng.Float64() - 0.5) * 1e15
			case 2:
				return rng.Float64() * 1e-6
			}
			return rng.NormFloat64() * 1000
		}}
	return to, vo
}

func runC20(c *core.Ctx) {
	res := c.Res
	res.Assume("encoding/json is the trusted reference; strings contain no characters that need escaping; float32 values are multiples of 1/8")
	res.Assume("excluded per the property: interface fields, pointers to scalars, time.Time, func/chan; additionally embedded fields, []byte and multi-level pointers")
	rng := c.Rng("dump")
	to, vo := c20Opts()
	N := c.Pick(12000, 150000)
	for i := 0; i < N; i++ {
		if i%25 == 0 { // shallow types so that the top-level special cases are frequent
			to.MaxDepth = rng.Intn(2)
		} else {
			to.MaxDepth = 1 + rng.Intn(3)
		}
		t := gen.RandStruct(rng, to)
		for j := 0; j < 3; j++ {
			v := gen.Fill(rng, t, vo)
			var in interface{} = v.Interface()
			if rng.Intn(2) == 0 {
				p := reflect.New(t)
				p.Elem().Set(v)
				in = p.Interface()
			}
			c20One(res, in, v, i*3+j)
		}
	}
	// wide structs: 65..130 fields, exported and unexported mixed (every exported field is a member of the document)
	for _, nf := range []int{63, 64, 65, 70, 128, 129, 130} {
		fs := make([]reflect.StructField, nf)
		for k := range fs {
			fs[k] = reflect.StructField{Name: fmt.Sprintf("W%d", k), Type: gen.TInt}
			if k%7 == 3 {
				fs[k] = reflect.StructField{Name: fmt.Sprintf("w%d", k), Type: gen.TString, PkgPath: "vmon/internal/props"}
			}
			if k%11 == 5 {
				fs[k].Type = reflect.TypeOf([]string(nil))
			}
		}
		wt := reflect.StructOf(fs)
		for j := 0; j < 3; j++ {
			v := gen.Fill(rng, wt, vo)
			res.Count("wide_struct_cases")
			c20One(res, v.Interface(), v, 900000+nf*3+j)
		}
	}
	// directed shapes
	type E struct{}
	type OnlyU struct{ a, b int }
	type FirstU struct {
		a int
		B string
	}
	type WithE struct {
		E E
		P *E
		S []E
		M map[string]E
	}
	type MS struct{ M map[string]int }
	type BigE struct {
		S     []E
		After FirstU
		M     map[int]E
		P     *FirstU
		L     []FirstU
		Set   map[string]struct{}
		Last  E
	}
	for _, n := range []int{126, 127, 128, 130, 300, 1000} {
		b := BigE{S: make([]E, n), After: FirstU{1, "after"}, M: map[int]E{}, P: &FirstU{2, "p"}, L: []FirstU{{3, "l"}}, Set: map[string]struct{}{}}
		for k := 0; k < n; k++ {
			b.M[k] = E{}
			b.Set[fmt.Sprint("k", k)] = struct{}{}
		}
		c20One(res, b, reflect.ValueOf(b), -1)
		w := struct{ L []BigE }{[]BigE{b, b}} // the dumper's input is a struct (or a pointer to one)
		c20One(res, w, reflect.ValueOf(w), -1)
		res.Count("many_empty_structs_cases")
	}
	type PS struct{ S []*FirstU }
	for _, in := range []interface{}{E{}, &E{}, OnlyU{1, 2}, FirstU{1, "x"}, WithE{}, WithE{P: &E{}, S: []E{{}, {}}, M: map[string]E{"a": {}}}, MS{map[string]int{"a": 1, "b": 2}}, PS{[]*FirstU{nil, {1, "y"}}}, (*E)(nil)} {
		c20One(res, in, reflect.Indirect(reflect.ValueOf(in)), -1)
	}
}

func c20One(res *core.Result, in interface{}, v reflect.Value, idx int) {
	res.Eval()
	std, err := json.Marshal(in)
	if err != nil {
		res.Count("std_marshal_error")
		return
	}
	t := reflect.TypeOf(in)
	stdDoc, err := decodeNum(std)
	if err != nil {
		return
	}
	want := c20Expected(stdDoc, t)
	got, pan, fn := drive.CallStr(func() string { return valid.GetDumpStructStr(in) })
	cls := map[string]bool{}
	if v.IsValid() {
		c20Classes(v, cls, 0)
	}
	keys := []string{}
	for k := range cls {
		res.Count("class|" + k)
		keys = append(keys, k)
	}
	sort.Strings(keys)
	if v.IsValid() && v.Kind() == reflect.Struct && v.NumField() > 0 {
		res.Distinct(t.String() + "|" + string(std))
	}
	wit := map[string]interface{}{"type": t.String(), "std_json": string(std), "dump": got}
	// signature class: the first distinguishing shape
	shape := "other"
	for _, k := range []string{"empty_struct", "multi_string_map"} {
		if cls[k] {
			shape = k
			break
		}
	}
	if shape == "other" && strings.Contains(t.String(), "map[string]") && strings.Contains(string(std), `":{"`) {
		shape = "string_map"
	}
	if pan != "" {
		res.Violate("C20|panic|"+core.NormMsg(pan)+"|"+fn, fmt.Sprintf("GetDumpStructStr panicked: %s; type %s; std json %s", pan, t, std), wit)
		return
	}
	gotDoc, derr := decodeNum([]byte(got))
	if derr != nil {
		res.Violate("C20|not-json|"+shape, fmt.Sprintf("output is not well-formed JSON (%v): %q; standard encoding %s; type %s", derr, trunc(got, 300), trunc(string(std), 300), t), wit)
		return
	}
	if !docEqual(gotDoc, want) {
		res.Violate("C20|different-document|"+shape, fmt.Sprintf("output %q decodes to a different document than the standard encoding %s (after deviations); type %s", trunc(got, 300), trunc(string(std), 300), t), wit)
		return
	}
	res.Count("documents_equal")
	if idx >= 0 && idx < 2 {
		res.Sample("random", 2, wit)
	}
}

func trunc(s string, n int) string {
	if len(s) > n {
		return s[:n] + "…"
	}
	return s
}
