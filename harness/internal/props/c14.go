package props

import (
	"fmt"
	"math/rand"
	"reflect"
	"strings"

	"gitee.com/xuesongtao/protoc-go-valid/valid"
	"vmon/internal/clause"
	"vmon/internal/core"
	"vmon/internal/ref"
)

// C14 — rule text round-trips through the builder, the splitter and the parser.
// The generator is the oracle: it knows the (key, value, message) triples it rendered.

var allRuleKeys = []string{"required", "exist", "either", "botheq", "to", "ge", "le", "oto", "gt", "lt", "eq", "noeq", "in", "include", "phone", "email", "idcard",
	"year", "year2month", "date", "datetime", "int", "ints", "float", "re", "ip", "ipv4", "ipv6", "unique", "json", "prefix", "suffix", "file", "dir"}

type ruleTriple struct {
	Key, Val, Msg string
	HasMsg        bool
}

// 大 (U+5927), 丬 (U+4E2C), ħ (U+0127), Ĭ (U+012C), ż (U+017C), Ľ (U+013D): runes whose code point
// modulo 256 is one of the metacharacters ' , | = — a scanner that narrows runes to bytes confuses them
var c14Plain = []rune("abcXYZ019测试调四川~/()=:.- _大丬ħĬżĽ%%sdv")

func c14Plainish(rng *rand.Rand, n int, noEq bool) string {
	var sb strings.Builder
	for i := 0; i < n; i++ {
		r := c14Plain[rng.Intn(len(c14Plain))]
		if noEq && r == '=' {
			r = 'e'
		}
		sb.WriteRune(r)
	}
	return sb.String()
}

// c14Segmented: plain text with optional single-quoted segments that may contain commas.
func c14Segmented(rng *rand.Rand, maxSeg int, first bool) string {
	var sb strings.Builder
	segs := 1 + rng.Intn(maxSeg)
	for s := 0; s < segs; s++ {
		if rng.Intn(3) == 0 {
			sb.WriteByte('\'')
			n := rng.Intn(5)
			for i := 0; i < n; i++ {
				if rng.Intn(3) == 0 {
					sb.WriteByte(',')
				} else {
					sb.WriteString(c14Plainish(rng, 1, false))
				}
			}
			sb.WriteByte('\'')
		} else {
			sb.WriteString(c14Plainish(rng, 1+rng.Intn(4), false))
		}
	}
	out := sb.String()
	if first && strings.HasPrefix(out, "=") {
		out = "v" + out
	}
	return out
}

func c14Triple(rng *rand.Rand) ruleTriple {
	t := ruleTriple{Key: allRuleKeys[rng.Intn(len(allRuleKeys))]}
	if rng.Intn(3) != 0 {
		switch t.Key {
		case "re":
			if rng.Intn(2) == 0 {
				t.Val = strings.ReplaceAll(c14Plainish(rng, 1+rng.Intn(6), false), "|", "")
			} else {
				t.Val = "'" + strings.ReplaceAll(c14Plainish(rng, rng.Intn(6), false), "|", "") + "," + "'"
			}
			if strings.HasPrefix(t.Val, "=") {
				t.Val = "x" + t.Val
			}
			if strings.HasPrefix(t.Val, "'") && rng.Intn(3) == 0 {
				t.Val = "=" + t.Val // raw form of an already quoted pattern: written as it is
			}
		default:
			t.Val = c14Segmented(rng, 3, true)
			if rng.Intn(15) == 0 {
				// a value that begins with the letters of its own key (in/out, prefix_, suffix)
				t.Val = t.Key + []string{"", "_", "/out", "x"}[rng.Intn(4)]
			}
			if t.Key != "in" && t.Key != "include" && rng.Intn(12) == 0 {
				t.Val = []string{"=", "=="}[rng.Intn(2)] + t.Val // raw form (and a value that itself begins with '=')
			}
			if t.Key != "in" && t.Key != "include" && rng.Intn(40) == 0 {
				t.Val = "=" // raw form with nothing after the '=': "key=" / "key=|message", an empty value
			}
			if rng.Intn(25) == 0 { // text that a formatting function would take for a verb
				t.Val = []string{"%", "100%", "%s", "%d%%", "%v/%v", "a%!b", "%[1]s", "%5.2f"}[rng.Intn(8)]
			}
		}
	}
	if rng.Intn(2) == 0 {
		t.HasMsg = true
		switch rng.Intn(7) {
		case 6: // contains a label word: the parser still prefixes its label
			t.Msg = []string{"see explain: 1-10", "年龄说明: 1-3", "explain:", "x 说明: y explain: z"}[rng.Intn(4)]
		case 0: // one character
			t.Msg = string([]rune("x必9=")[rng.Intn(4)])
		case 1: // contains '='
			t.Msg = c14Plainish(rng, 1+rng.Intn(3), true) + "=" + c14Plainish(rng, rng.Intn(3), false)
		case 2: // quoted, with commas
			t.Msg = "'" + c14Plainish(rng, 1+rng.Intn(3), false) + "," + c14Plainish(rng, rng.Intn(3), false) + "'"
		case 3:
			t.Msg = c14Plainish(rng, 1+rng.Intn(5), false) + "|" + c14Plainish(rng, 1+rng.Intn(3), false)
		default:
			t.Msg = c14Segmented(rng, 3, false)
		}
	}
	return t
}

// c14Render is the documented rendering of GenValidKV.
func c14Render(t ruleTriple) (text, renderedVal string) {
	text = t.Key
	if t.Val != "" {
		switch t.Key {
		case "in", "include":
			renderedVal = "(" + t.Val + ")"
		case "re":
			if len(t.Val) > 1 && (t.Val[0] == '\'' || t.Val[1] == '\'') {
				renderedVal = t.Val
			} else {
				renderedVal = "'" + t.Val + "'"
			}
		default:
			renderedVal = t.Val
		}
		if t.Key == "re" && strings.HasPrefix(t.Val, "='") {
			renderedVal = t.Val[1:]
			text += t.Val
		} else if strings.HasPrefix(t.Val, "=") && t.Key != "in" && t.Key != "include" && t.Key != "re" {
			// raw form: a value that already starts with '=' is written as it is (GenValidKV adds no
			// second '='); everything after that first '=' is the value — it may itself start with '='
			renderedVal = t.Val[1:]
			text += t.Val
		} else {
			text += "=" + renderedVal
		}
	}
	if t.HasMsg {
		text += "|" + t.Msg
	}
	return
}

func init() {
	core.Register(&core.Prop{
		ID: "C14",
		Rule: "[the builder is also called twice with a kept argument slice (args...)] rule lists of 1-8 (key, value, message) triples over all 34 rule keys rendered with GenValidKV, joined with RM.Set (several field names, repeated Set), read back with RM.Get, split with ValidNamesSplit and parsed with ParseValidNameKV; values/messages over ASCII, CJK, = ~ / ( ) | and single-quoted segments containing commas (documented restrictions: commas only inside quotes, no | inside a value, message non-empty; values in raw form =v and ==v included); " +
			"plus the no-loss law Join(ValidNamesSplit(s)) in {s, s minus one trailing separator} and fast-path/slow-path agreement on arbitrary strings. distinct = distinct rule text / distinct string; non-trivial = list with >=2 rules or a quote, string containing a separator or quote",
		Shards: func(t core.Tier) int { return 16 },
		Run:    runC14,
		Check: func(r *core.Result, t core.Tier) {
			for _, k := range []string{"lists_with_quoted_comma", "one_char_messages", "messages_with_eq", "noloss_slow_path", "noloss_fast_path", "fastslow_compared"} {
				if r.Counters[k] < 500 {
					r.Inconc(fmt.Sprintf("class under-observed: %s=%d", k, r.Counters[k]))
				}
			}
		},
	})
}

func runC14(c *core.Ctx) {
	res := c.Res
	res.Assume("documented restrictions on rule text: commas only inside single-quoted segments, quotes only as balanced wrapping pairs, '|' not inside a value, a value does not start with = except in the raw form (=v, ==v, and = alone for an empty value), a message is non-empty when present")
	rng := c.Rng("roundtrip")
	N := c.Pick(60000, 600000)
	for i := 0; i < N; i++ {
		n := 1 + rng.Intn(8)
		triples := make([]ruleTriple, n)
		texts := make([]string, n)
		rvals := make([]string, n)
		for j := range triples {
			triples[j] = c14Triple(rng)
			texts[j], rvals[j] = c14Render(triples[j])
		}
		res.Eval()
		// builder
		ok := true
		for j, t := range triples {
			var got string
			switch {
			case t.HasMsg:
				got = valid.GenValidKV(t.Key, t.Val, t.Msg)
			case t.Val != "":
				got = valid.GenValidKV(t.Key, t.Val)
			default:
				got = valid.GenValidKV(t.Key)
			}
			if got != texts[j] {
				res.Violate("C14|builder|"+keyClass(t.Key), fmt.Sprintf("GenValidKV(%q,%q,%q)=%q, documented rendering %q", t.Key, t.Val, t.Msg, got, texts[j]), t)
				ok = false
			}
			// the arguments handed over from a slice the caller keeps (args...): the helper reads them, twice the same
			// call gives twice the same text, and the slice is what it was
			if j%3 == 0 && (t.HasMsg || t.Val != "") {
				args := []string{t.Val}
				if t.HasMsg {
					args = append(args, t.Msg)
				}
				keep := append([]string{}, args...)
				g1 := valid.GenValidKV(t.Key, args...)
				g2 := valid.GenValidKV(t.Key, args...)
				res.Count("builder_calls_with_a_kept_argument_slice")
				if g1 != got || g2 != got || !reflect.DeepEqual(args, keep) {
					res.Violate("C14|builder-kept-slice|"+keyClass(t.Key), fmt.Sprintf("GenValidKV(%q, args...) with args=%q: first call %q, second call %q (separate arguments give %q); args afterwards %q", t.Key, keep, g1, g2, got, args), t)
					ok = false
				}
			}
		}
		if !ok {
			continue
		}
		// RM.Set: one or two calls, one or two field names
		rm := valid.NewRule()
		fields := "F"
		if rng.Intn(3) == 0 {
			fields = "F,G"
		}
		cut := rng.Intn(n + 1)
		if cut > 0 && cut < n && rng.Intn(2) == 0 {
			rm.Set(fields, texts[:cut]...)
			rm.Set(fields, texts[cut:]...)
			res.Count("accumulating_sets")
		} else {
			rm.Set(fields, texts...)
		}
		joined := strings.Join(texts, ",")
		if n > 0 && rng.Intn(4) == 0 {
			// a call that adds nothing (optional rules computed at run time and found empty), before or after the
			// real ones: the field's rules are still the ones written, give or take an empty item
			rm2 := valid.NewRule()
			emptyFirst := rng.Intn(2) == 0
			if emptyFirst {
				rm2.Set(fields)
			}
			rm2.Set(fields, texts...)
			if !emptyFirst {
				rm2.Set(fields)
			}
			res.Count("sets_with_an_empty_call")
			for _, f := range strings.Split(fields, ",") {
				ps, pan := safeSplit(rm2.Get(f))
				kept := []string{}
				for _, p := range ps {
					if p != "" {
						kept = append(kept, p)
					}
				}
				if pan != "" || strings.Join(kept, "\x00") != strings.Join(texts, "\x00") {
					res.Violate("C14|rm-set-empty-call", fmt.Sprintf("RM.Set(%q, %q...) with an empty Set(%q) %s it: Get(%q)=%q splits into %q, want the rules written", fields, texts, fields, map[bool]string{true: "before", false: "after"}[emptyFirst], f, rm2.Get(f), kept), texts)
					ok = false
				}
			}
		}
		for _, f := range strings.Split(fields, ",") {
			if g := rm.Get(f); g != joined {
				res.Violate("C14|rm-set-get", fmt.Sprintf("RM.Set(%q, %q...).Get(%q)=%q want %q", fields, texts, f, g, joined), texts)
				ok = false
			}
		}
		if !ok {
			continue
		}
		pieces, pan := safeSplit(joined)
		if pan != "" {
			res.Violate("C14|split-panic", fmt.Sprintf("ValidNamesSplit(%q) panicked: %s", joined, pan), joined)
			continue
		}
		if strings.Contains(joined, ",'") || strings.Contains(joined, "',") || strings.Contains(joined, "'") && strings.Count(joined, ",") >= n {
			res.Count("lists_with_quoted_comma")
		}
		if n >= 2 || strings.Contains(joined, "'") {
			res.Distinct(joined)
		}
		if len(pieces) != n {
			res.Violate("C14|split-count", fmt.Sprintf("ValidNamesSplit(%q) gave %d pieces %q, want %d rules %q", joined, len(pieces), pieces, n, texts), texts)
			continue
		}
		for j := range pieces {
			if pieces[j] != texts[j] {
				res.Violate("C14|split-piece", fmt.Sprintf("ValidNamesSplit(%q)[%d]=%q want %q", joined, j, pieces[j], texts[j]), texts)
				ok = false
				break
			}
		}
		if !ok {
			continue
		}
		for j, t := range triples {
			k, v, m, pan := safeParse(pieces[j])
			wantMsg := ""
			if t.HasMsg {
				wantMsg = clause.LabelFor(t.Msg) + " " + t.Msg
				if len(t.Msg) == 1 || len([]rune(t.Msg)) == 1 {
					res.Count("one_char_messages")
				}
				if strings.Contains(t.Msg, "=") {
					res.Count("messages_with_eq")
				}
			}
			if pan != "" {
				res.Violate("C14|parse-panic", fmt.Sprintf("ParseValidNameKV(%q) panicked: %s", pieces[j], pan), t)
				continue
			}
			if k != t.Key || v != rvals[j] || m != wantMsg {
				cls := "other"
				switch {
				case t.HasMsg && len([]rune(t.Msg)) == 1:
					cls = "one-char-message"
				case t.HasMsg && t.Val == "" && strings.Contains(t.Msg, "="):
					cls = "valueless-message-with-eq"
				case t.HasMsg && m == wantMsg:
					cls = "key-or-value"
				}
				res.Violate("C14|parse|"+cls, fmt.Sprintf("ParseValidNameKV(%q)=(%q,%q,%q) want (%q,%q,%q)", pieces[j], k, v, m, t.Key, rvals[j], wantMsg), t)
			}
		}
		if i < 2 {
			res.Sample("rule-list", 2, map[string]interface{}{"texts": texts})
		}
	}

	// ---- no-loss law and fast/slow agreement on arbitrary strings
	alpha := []string{",", ",", "'", "'", "a", "b", "=", "|", "/", "(", ")", "~", "测", " ", "\x00", "\\", "\"", "é", "大", "丬", "ħ", "Ĭ"}
	M := c.Pick(150000, 3000000)
	for i := 0; i < M; i++ {
		n := rng.Intn(14)
		var sb strings.Builder
		for j := 0; j < n; j++ {
			sb.WriteString(alpha[rng.Intn(len(alpha))])
		}
		if rng.Intn(20) == 0 {
			b := make([]byte, rng.Intn(8))
			rng.Read(b)
			sb.Write(b)
		}
		s := sb.String()
		sep := byte(',')
		if rng.Intn(4) == 0 {
			sep = '/'
			s = strings.ReplaceAll(s, ",", "/")
		}
		res.Eval()
		var pieces []string
		var pan string
		if sep == ',' && rng.Intn(2) == 0 {
			pieces, pan = safeSplit(s)
		} else {
			pieces, pan = safeSplit(s, sep)
		}
		if pan != "" {
			res.Violate("C14|split-panic", fmt.Sprintf("ValidNamesSplit(%q) panicked: %s", s, pan), s)
			continue
		}
		if strings.ContainsAny(s, ",'/") {
			res.Distinct("s|" + s)
		}
		if strings.Contains(s, "'") {
			res.Count("noloss_slow_path")
		} else {
			res.Count("noloss_fast_path")
		}
		// independent splitter (quote state toggles at every single quote; separators split outside
		// quotes only). Judged when the quotes are balanced, as the documentation describes.
		if nq := strings.Count(s, "'"); nq > 0 && nq%2 == 0 {
			want := ref.SplitQuoted(s, sep)
			same := len(want) == len(pieces)
			for k := 0; same && k < len(want); k++ {
				same = want[k] == pieces[k]
			}
			res.Count("split_vs_reference")
			if !same {
				res.Violate("C14|split-differs-from-reference", fmt.Sprintf("ValidNamesSplit(%q, %q)=%q, a quote-aware splitter gives %q", s, string(sep), pieces, want), s)
			}
		}
		j := strings.Join(pieces, string(sep))
		if j != s && j+string(sep) != s {
			res.Violate("C14|split-loses-characters", fmt.Sprintf("ValidNamesSplit(%q,%q)=%q joins to %q", s, sep, pieces, j), s)
			continue
		}
		if !strings.Contains(s, "'") && s != "" {
			// the same quote-free text with a quoted empty rule appended takes the slow path
			slow, pan := safeSplit(s+string(sep)+"''", sep)
			res.Count("fastslow_compared")
			want := append(append([]string{}, pieces...), "''")
			if pan != "" || !eqStrs(slow, want) {
				res.Violate("C14|fast-slow-disagree", fmt.Sprintf("ValidNamesSplit(%q)=%q but ValidNamesSplit(%q)=%q", s, pieces, s+string(sep)+"''", slow), s)
			}
		}
	}
}

func keyClass(k string) string {
	switch k {
	case "in", "include", "re":
		return k
	}
	return "plain"
}

func eqStrs(a, b []string) bool {
	if len(a) != len(b) {
		return false
	}
	for i := range a {
		if a[i] != b[i] {
			return false
		}
	}
	return true
}

func safeSplit(s string, sep ...byte) (out []string, pan string) {
	defer func() {
		if r := recover(); r != nil {
			pan = fmt.Sprint(r)
		}
	}()
	return valid.ValidNamesSplit(s, sep...), ""
}

func safeParse(s string) (k, v, m, pan string) {
	defer func() {
		if r := recover(); r != nil {
			pan = fmt.Sprint(r)
		}
	}()
	k, v, m = valid.ParseValidNameKV(s)
	return
}
