package props

import (
	"fmt"
	"math/rand"
	"net/url"
	"reflect"
	"strings"
	"time"

	"gitee.com/xuesongtao/protoc-go-valid/valid"
	"vmon/internal/core"
	"vmon/internal/drive"
	"vmon/internal/gen"
	"vmon/internal/ref"
)

// C17 — either / botheq groups are judged per object, all-empty and all-equal.

var c17MemberTypes = []reflect.Type{gen.TString, gen.TString, gen.TInt, gen.TInt32, gen.TUint8, gen.TFloat64, gen.TBool, gen.TInt64, gen.TUint64, reflect.PointerTo(gen.TString), reflect.PointerTo(gen.TInt32), reflect.TypeOf([]int(nil)), reflect.TypeOf([]string(nil)),
	reflect.TypeOf((*interface{})(nil)).Elem(), // interface-typed members: nil is empty, and equal only to nil
	reflect.TypeOf(c17Pair{}), reflect.TypeOf([2]int{})} // members held by value whose kind is struct / array: empty when they are the zero value

// c17Pair: a group member of struct kind (a period, a money amount ...)
type c17Pair struct{ From, To int }

// c17Type builds a struct type with 2-6 group-tagged fields in 1-3 groups; the members of one
// botheq group share a type. Returns the type and, per field, its group index (-1 = plain field).
func c17Type(rng *rand.Rand, id int) (reflect.Type, []int) {
	nGroups := 1 + rng.Intn(3)
	type g struct {
		kind string
		t    reflect.Type
		text string
	}
	groups := make([]g, nGroups)
	for i := range groups {
		kind := []string{"either", "botheq"}[rng.Intn(2)]
		groups[i] = g{kind: kind, t: c17MemberTypes[rng.Intn(len(c17MemberTypes))], text: fmt.Sprintf("%s=%d", kind, i+1)}
		if rng.Intn(4) == 0 {
			groups[i].text += fmt.Sprintf("|gm_%d_%d", id, i) // a message on the group rule is legal rule text
		}
	}
	nFields := 2 + rng.Intn(5)
	fields := []reflect.StructField{}
	gidx := []int{}
	for f := 0; f < nFields; f++ {
		gi := rng.Intn(nGroups + 1)
		if gi == nGroups && rng.Intn(2) == 0 {
			gi = rng.Intn(nGroups)
		}
		if gi == nGroups { // a plain field with an ordinary rule in between
			fields = append(fields, reflect.StructField{Name: fmt.Sprintf("P%d", f), Type: gen.TString, Tag: reflect.StructTag(fmt.Sprintf(`valid:"to=1~3|m_p%d_%d"`, id, f))})
			gidx = append(gidx, -1)
			continue
		}
		gr := groups[gi]
		ft := gr.t
		if gr.kind == "either" && rng.Intn(3) == 0 {
			ft = c17MemberTypes[rng.Intn(len(c17MemberTypes))] // either members may differ in type
		}
		rule := gr.text
		if nGroups >= 2 && rng.Intn(5) == 0 {
			// the field is also a member of another group (of whatever kind that one is)
			o := groups[(gi+1)%nGroups]
			if o.kind == "either" || o.t == ft {
				if rng.Intn(2) == 0 {
					rule = rule + "," + o.text
				} else {
					rule = o.text + "," + rule
				}
			}
		}
		switch rng.Intn(7) {
		case 0:
			rule = "required|m_r," + rule
		case 1:
			if ft.Kind() == reflect.String {
				rule = rule + ",le=2|m_le"
			}
		case 2:
			// an ordinary rule in front of the group rule: skipped on an empty value, the group rule behind it is not
			if ft.Kind() == reflect.String {
				rule = []string{"phone|m_ph,", "to=1~99|m_to,", "email|m_em,int|m_int,"}[rng.Intn(3)] + rule
			} else if groupable(ft) && ft.Kind() != reflect.Bool {
				rule = "le=1000000|m_le," + rule
			}
		case 3:
			// a name nobody registered in front of the group rule: it gets its clause, the group rule behind it still counts
			rule = "nosuch_c17," + rule
		}
		fields = append(fields, reflect.StructField{Name: fmt.Sprintf("G%d", f), Type: ft, Tag: reflect.StructTag(`valid:"` + rule + `"`)})
		gidx = append(gidx, gi)
	}
	return reflect.StructOf(fields), gidx
}

// c17Str / c17Key: defined string types (a value held in an interface member; the key type of a map input)
type c17Str string
type c17Key string

// c17Value fills one object according to a pattern for its groups.
func c17Value(rng *rand.Rand, t reflect.Type, gidx []int) (reflect.Value, string) {
	v := reflect.New(t).Elem()
	pattern := []string{"all-empty", "one-set", "all-equal", "one-differs", "all-different", "random", "last-differs", "last-set"}[rng.Intn(8)]
	lastOf := map[int]int{}
	for f, gi := range gidx {
		lastOf[gi] = f
	}
	ifaceMode := rng.Intn(4)
	set := func(f reflect.Value, k int) {
		switch f.Kind() {
		case reflect.String:
			f.SetString([]string{"", "a", "b", "ab", "测"}[k%5])
		case reflect.Int, reflect.Int32:
			f.SetInt(int64(k))
		case reflect.Uint8:
			f.SetUint(uint64(k))
		case reflect.Int64: // neighbours beyond 2^53: equal as float64, different as integers
			if k != 0 {
				f.SetInt(int64(1)<<53 + int64(k))
			}
		case reflect.Uint64:
			if k != 0 {
				f.SetUint(^uint64(0) - uint64(k))
			}
		case reflect.Float64:
			f.SetFloat(float64(k) / 2)
		case reflect.Bool:
			f.SetBool(k%2 == 1)
		case reflect.Struct:
			if k != 0 {
				f.Field(k % 2).SetInt(int64(k))
			}
		case reflect.Array:
			if k != 0 {
				f.Index(k % 2).SetInt(int64(k))
			}
		case reflect.Interface:
			if k != 0 {
				switch ifaceMode {
				case 1: // members holding the same number under different dynamic types: not equal (as == on interfaces says)
					f.Set(reflect.ValueOf([]interface{}{int(5), int64(5), time.Duration(5), int32(5), uint8(5)}[k%5]))
				case 2: // ... and the same text under a defined string type
					f.Set(reflect.ValueOf([]interface{}{"v", "v", c17Str("v"), "w", c17Str("w")}[k%5]))
				default:
					f.Set(reflect.ValueOf([]interface{}{7, "a", 7.5, 8}[k%4]))
				}
			}
		case reflect.Ptr: // a fresh pointer for every member: equal values live at different addresses
			if k == 0 {
				return
			}
			p := reflect.New(f.Type().Elem())
			if k%4 == 3 {
				// a non-nil pointer to a zero value: present (explicit presence), so not empty
			} else if p.Elem().Kind() == reflect.String {
				p.Elem().SetString([]string{"", "a", "b", "ab", "测"}[k%5])
			} else {
				p.Elem().SetInt(int64(k))
			}
			f.Set(p)
		case reflect.Slice:
			if k == 0 {
				return
			}
			s := reflect.MakeSlice(f.Type(), k%3, k%3) // k=3 -> empty non-nil slice
			for i := 0; i < s.Len(); i++ {
				if s.Index(i).Kind() == reflect.String {
					s.Index(i).SetString("e")
				} else {
					s.Index(i).SetInt(int64(k))
				}
			}
			f.Set(s)
		}
	}
	first := map[int]bool{}
	for f := 0; f < t.NumField(); f++ {
		gi := gidx[f]
		fv := v.Field(f)
		if gi < 0 {
			set(fv, rng.Intn(5))
			continue
		}
		switch pattern {
		case "all-empty":
		case "one-set":
			if !first[gi] {
				set(fv, 1+rng.Intn(3))
			}
		case "all-equal":
			set(fv, 1)
		case "one-differs":
			if !first[gi] {
				set(fv, 2)
			} else {
				set(fv, 1)
			}
		case "all-different":
			set(fv, 1+f)
		case "last-differs":
			if lastOf[gi] == f {
				set(fv, 2)
			} else {
				set(fv, 1)
			}
		case "last-set":
			if lastOf[gi] == f {
				set(fv, 1)
			}
		default:
			set(fv, rng.Intn(4))
		}
		first[gi] = true
	}
	return v, pattern
}

func init() {
	core.Register(&core.Prop{
		ID: "C17",
		Rule: "struct types with 2-6 group-tagged fields in 1-3 either/botheq groups (members string / ints / uint / float / bool / slices, optional message on the group rule, plain fields in between, singleton groups) and value patterns {all empty, exactly one set, all equal, first / last member differing, first / last member set, all different, random}; the object alone and repeated as []T, []*T, [n]T, map[string]T, top-level slices/maps and nested under exist / required fields with DIFFERENT patterns in different elements; " +
			"the same groups through Map (map[string]T, []map[string]T with different patterns per element) and Url. Group clauses (kind, member list) must equal the reference's per-object evaluation. distinct = distinct (type, value, carrier); non-trivial = at least one group with >= 2 members",
		Shards: func(t core.Tier) int { return 16 },
		Run:    runC17,
		Check: func(r *core.Result, t core.Tier) {
			for k, min := range map[string]int64{"multi_object_cases_patterns_differ": 500, "singleton_groups_expected": 200, "group_clauses_expected": 1000, "carrier|map": 200, "carrier|slice-map": 200, "carrier|url": 200, "carrier|nested": 200, "carrier|top-slice": 200, "carrier|top-map": 100} {
				if r.Counters[k] < min {
					r.Inconc(fmt.Sprintf("under-observed: %s=%d (minimum %d)", k, r.Counters[k], min))
				}
			}
		},
	})
}

func runC17(c *core.Ctx) {
	res := c.Res
	res.Assume("for map and URL inputs every member key of a group is present (possibly empty); an absent member key is not covered by the statement")
	res.Assume("group clauses are compared as a multiset after the field clauses; member order inside a clause is declaration order for structs and URL parameters, unspecified for Go maps")
	rng := c.Rng("c17")
	N := c.Pick(1000, 25000)
	for i := 0; i < N; i++ {
		t, gidx := c17Type(rng, i)
		c17StructCase(res, rng, t, gidx, i)
	}
	M := c.Pick(1500, 30000)
	for i := 0; i < M; i++ {
		c17FlatCase(res, rng, i)
	}
}

func c17Note(res *core.Result, exps []ref.Exp) {
	for _, x := range exps {
		switch {
		case x.Kind == "group":
			res.Count("group_clauses_expected")
			res.Count("group_violated|" + x.GKind)
		case strings.HasSuffix(x.GKind, "-single"):
			res.Count("singleton_groups_expected")
		}
	}
}

// Named types for top-level slice / array inputs (the element type's name is part of the clause
// path; the text of an anonymous struct type would contain the clause separator).
type C17A struct {
	G0 string `valid:"either=1"`
	G1 string `valid:"either=1"`
	P2 string `valid:"to=1~3|m_p"`
	G3 int    `valid:"botheq=2"`
	G4 int    `valid:"botheq=2"`
}
type C17B struct {
	G0 []int   `valid:"either=1"`
	G1 float64 `valid:"either=1"`
	G2 bool    `valid:"either=1"`
	G3 string  `valid:"botheq=1|gm"`
	G4 string  `valid:"required|m_r,botheq=1|gm"`
}
type C17C struct {
	G0 uint8  `valid:"either=7"`
	G1 string `valid:"botheq=3"`
	G2 string `valid:"botheq=3"`
	G3 string `valid:"botheq=3"`
}

var c17Named = []reflect.Type{reflect.TypeOf(C17A{}), reflect.TypeOf(C17B{}), reflect.TypeOf(C17C{})}

// gidxFromTags derives the group index of every field from its tag.
func gidxFromTags(t reflect.Type) []int {
	ids := map[string]int{}
	out := make([]int, t.NumField())
	for f := 0; f < t.NumField(); f++ {
		out[f] = -1
		for _, item := range ref.SplitQuoted(t.Field(f).Tag.Get("valid"), ',') {
			if strings.HasPrefix(item, "either=") || strings.HasPrefix(item, "botheq=") {
				if _, ok := ids[item]; !ok {
					ids[item] = len(ids)
				}
				out[f] = ids[item]
			}
		}
	}
	return out
}

func c17StructCase(res *core.Result, rng *rand.Rand, t reflect.Type, gidx []int, idx int) {
	shape := rng.Intn(8)
	if shape == 1 || shape == 2 {
		t = c17Named[rng.Intn(len(c17Named))]
		gidx = gidxFromTags(t)
	}
	mk := func() (reflect.Value, string) { return c17Value(rng, t, gidx) }
	var in interface{}
	carrier := ""
	patterns := []string{}
	add := func(p string) { patterns = append(patterns, p) }
	switch shape {
	case 0:
		v, p := mk()
		add(p)
		carrier, in = "single", ptrTo(v).Interface()
	case 1, 2:
		carrier = "top-slice"
		n := 2 + rng.Intn(2)
		if rng.Intn(2) == 0 {
			s := reflect.MakeSlice(reflect.SliceOf(t), 0, n)
			for k := 0; k < n; k++ {
				v, p := mk()
				add(p)
				s = reflect.Append(s, v)
			}
			in = s.Interface()
		} else {
			s := reflect.MakeSlice(reflect.SliceOf(reflect.PointerTo(t)), 0, n)
			for k := 0; k < n; k++ {
				v, p := mk()
				add(p)
				s = reflect.Append(s, ptrTo(v))
			}
			in = s.Interface()
		}
	case 3:
		carrier = "top-map"
		if rng.Intn(3) == 0 {
			// float64 keys that differ only beyond float32 precision: two entries, two objects
			m := reflect.MakeMap(reflect.MapOf(gen.TFloat64, t))
			keys := [][2]float64{{16777216, 16777217}, {0.1, float64(float32(0.1))}, {1e10, 1e10 + 1}}[rng.Intn(3)]
			for k := 0; k < 2; k++ {
				v, p := mk()
				add(p)
				m.SetMapIndex(reflect.ValueOf(keys[k]), v)
			}
			in = m.Interface()
			break
		}
		m := reflect.MakeMap(reflect.MapOf(gen.TString, t))
		for k := 0; k < 2; k++ {
			v, p := mk()
			add(p)
			m.SetMapIndex(reflect.ValueOf(fmt.Sprintf("k%d", k)), v)
		}
		in = m.Interface()
	default:
		// nested under exist / required fields of an outer struct, which has a group of its own
		carrier = "nested"
		// the nested object comes first in one case out of three (it then starts at the parent's own
		// address); the parent's group has the same rule text as a group the nested type may have
		ofs := []reflect.StructField{
			{Name: "A", Type: gen.TString, Tag: `valid:"either=1"`},
			{Name: "In", Type: t, Tag: `valid:"exist"`},
			{Name: "B", Type: gen.TString, Tag: `valid:"either=1"`},
		}
		iA, iIn := 0, 1
		if rng.Intn(3) == 0 {
			ofs[0], ofs[1] = ofs[1], ofs[0]
			iA, iIn = 1, 0
			res.Count("nested_object_is_first_field")
		}
		outer := reflect.StructOf([]reflect.StructField{
			ofs[0], ofs[1], ofs[2],
			{Name: "InP", Type: reflect.PointerTo(t), Tag: `valid:"required|m_inp"`},
			{Name: "L", Type: reflect.SliceOf(t), Tag: `valid:"exist"`},
			{Name: "Arr", Type: reflect.ArrayOf(2, reflect.PointerTo(t)), Tag: `valid:"exist"`},
			{Name: "M", Type: reflect.MapOf(gen.TString, reflect.PointerTo(t)), Tag: `valid:"required|m_m"`},
			{Name: "MV", Type: reflect.MapOf(gen.TString, t), Tag: `valid:"exist"`}, // entries held by value: an all-empty entry is an object like any other
		})
		o := reflect.New(outer).Elem()
		if rng.Intn(2) == 0 {
			o.Field(iA).SetString("a")
		}
		v, p := mk()
		add(p)
		o.Field(iIn).Set(v)
		if rng.Intn(4) != 0 {
			v, p := mk()
			add(p)
			o.Field(3).Set(ptrTo(v))
		}
		n := rng.Intn(3)
		l := reflect.MakeSlice(reflect.SliceOf(t), 0, n)
		for k := 0; k < n; k++ {
			v, p := mk()
			add(p)
			l = reflect.Append(l, v)
		}
		o.Field(4).Set(l)
		if rng.Intn(2) == 0 {
			v, p := mk()
			add(p)
			o.Field(5).Index(1).Set(ptrTo(v))
		}
		m := reflect.MakeMap(outer.Field(6).Type)
		for k := 0; k < rng.Intn(3); k++ {
			v, p := mk()
			add(p)
			m.SetMapIndex(reflect.ValueOf(fmt.Sprintf("k%d", k)), ptrTo(v))
		}
		o.Field(6).Set(m)
		mv := reflect.MakeMap(outer.Field(7).Type)
		for k := 0; k < rng.Intn(3); k++ {
			v, p := mk()
			add(p)
			mv.SetMapIndex(reflect.ValueOf(fmt.Sprintf("v%d", k)), v)
		}
		o.Field(7).Set(mv)
		in = o.Addr().Interface()
	}
	res.Count("carrier|" + carrier)
	differ := false
	for _, p := range patterns[1:] {
		if p != patterns[0] {
			differ = true
		}
	}
	if len(patterns) >= 2 && differ {
		res.Count("multi_object_cases_patterns_differ")
	}
	env := &ref.Env{Tag: "valid"}
	exps, entryErr := env.ExpectStruct(in)
	out := drive.Call(func() error { return valid.Struct(in) })
	wit := vWitness{Entry: "Struct/" + carrier, Type: trunc(t.String(), 900), Value: describeValue(reflect.ValueOf(in)), Rules: strings.Join(patterns, ",")}
	if judged, ok := compareCall(res, "C17|"+carrier, "", out, exps, entryErr, env, true, wit); judged {
		c17Note(res, exps)
		res.Distinct(carrier + "|" + t.String() + "|" + wit.Value)
		if ok && idx < 4 && len(exps) > 0 {
			res.Sample("struct/"+carrier, 1, map[string]interface{}{"type": trunc(t.String(), 400), "value": trunc(wit.Value, 300), "patterns": patterns, "library_returned": trunc(out.String(), 500)})
		}
	}
}

// c17FlatCase: the same groups through Map and Url.
func c17FlatCase(res *core.Result, rng *rand.Rand, idx int) {
	nGroups := 1 + rng.Intn(2)
	nKeys := 2 + rng.Intn(4)
	rules := map[string]string{}
	rm := valid.RM{}
	keys := []string{}
	kind := make([]string, nGroups)
	for g := range kind {
		kind[g] = []string{"either", "botheq"}[rng.Intn(2)]
	}
	grpOf := map[string]int{}
	for k := 0; k < nKeys; k++ {
		key := fmt.Sprintf("k%d", k)
		keys = append(keys, key)
		g := rng.Intn(nGroups + 1)
		if g == nGroups {
			if rng.Intn(2) == 0 {
				rules[key] = fmt.Sprintf("to=1~2|m_%d", k)
				rm[key] = rules[key]
			}
			grpOf[key] = -1
			continue
		}
		grpOf[key] = g
		r := fmt.Sprintf("%s=%d", kind[g], g+1)
		if rng.Intn(4) == 0 {
			r = "required|m_req," + r
		} else if rng.Intn(6) == 0 {
			r = "nosuch_c17," + r
		}
		rules[key], rm[key] = r, r
	}
	if len(rm) == 0 {
		return
	}
	// values that differ only behind a character the URL syntax gives a meaning to ('=', '&'), or that begin with one
	sameVals := []string{"same", "sa me", "sa+me", "sa=me", "a&b=c", "=", "YWJj=x1"}
	otherVals := []string{"other", "sa+me", "sa me", "sa=mf", "a&b=d", "==", "YWJj=x2"}
	pat := func() map[string]string {
		p := rng.Intn(5)
		vi := len(keys) % 3
		if rng.Intn(2) == 0 {
			vi = rng.Intn(len(sameVals))
		}
		vals := map[string]string{}
		seen := map[int]bool{}
		for i, k := range keys {
			vals[k] = "" // every key is present, possibly empty
			g := grpOf[k]
			switch {
			case g < 0:
				vals[k] = []string{"", "a", "abc"}[rng.Intn(3)]
			case p == 0:
				vals[k] = ""
			case p == 1:
				if !seen[g] {
					vals[k] = []string{"x", "x", "=", "=x", "&"}[vi%5]
				}
			case p == 2:
				vals[k] = sameVals[vi]
			case p == 3:
				if !seen[g] {
					vals[k] = otherVals[vi]
				} else {
					vals[k] = sameVals[vi]
				}
			default:
				vals[k] = fmt.Sprintf("v%d", i)
			}
			if g >= 0 {
				seen[g] = true
			}
		}
		return vals
	}
	switch rng.Intn(3) {
	case 0, 1: // Map: single map or a slice of maps with different patterns per element
		slice := rng.Intn(2) == 0
		n := 1
		if slice {
			n = 2 + rng.Intn(2)
		}
		maps := []map[string]string{}
		env := &ref.Env{}
		env.Begin()
		for e := 0; e < n; e++ {
			vals := pat()
			maps = append(maps, vals)
			entries := []ref.FlatEntry{}
			for _, k := range keys {
				entries = append(entries, ref.FlatEntry{Key: k, Val: reflect.ValueOf(vals[k])})
			}
			prefix := ""
			if slice {
				prefix = fmt.Sprintf("[%d]", e)
			}
			p := prefix
			env.ExpectFlat(entries, rules, func(k string) string { return p + "map[" + k + "]" }, p, true, []ref.OrdKey{{N: e}})
		}
		exps := env.Finish()
		var in interface{} = maps[0]
		carrier := "map"
		definedKey := rng.Intn(4) == 0 // the same entries in a map whose key type is a DEFINED string type: a map input like any other
		if definedKey && !slice {
			m := map[c17Key]string{}
			for k, v := range maps[0] {
				m[c17Key(k)] = v
			}
			in = m
			res.Count("map_inputs_with_defined_string_key_type")
		}
		if slice {
			in = maps
			if definedKey {
				ms := []map[c17Key]string{}
				for _, mm := range maps {
					m := map[c17Key]string{}
					for k, v := range mm {
						m[c17Key(k)] = v
					}
					ms = append(ms, m)
				}
				in = ms
				res.Count("map_inputs_with_defined_string_key_type")
			}
			carrier = "slice-map"
			if n >= 2 && fmt.Sprint(maps[0]) != fmt.Sprint(maps[1]) {
				res.Count("multi_object_cases_patterns_differ")
			}
		}
		res.Count("carrier|" + carrier)
		out := drive.Call(func() error { return valid.Map(in, rm) })
		wit := vWitness{Entry: "Map/" + carrier, Value: fmt.Sprint(in), Rules: rules}
		if judged, ok := compareCall(res, "C17|"+carrier, "", out, exps, false, env, true, wit); judged {
			c17Note(res, exps)
			res.Distinct(carrier + "|" + wit.Value + "|" + fmt.Sprint(rules))
			if ok && idx < 6 && len(exps) > 0 {
				res.Sample(carrier, 1, map[string]interface{}{"input": wit.Value, "rules": rules, "library_returned": trunc(out.String(), 400)})
			}
		}
	default: // Url
		vals := pat()
		q := []string{}
		entries := []ref.FlatEntry{}
		for _, k := range keys {
			if vals[k] == "" && rng.Intn(3) == 0 {
				q = append(q, url.QueryEscape(k)) // an empty member written without '='
				res.Count("url_bare_member_keys")
			} else {
				// a blank may travel as '+' or as %20, a plus sign only as %2B: equal values are equal
				// however each member happens to be spelled
				ev := url.QueryEscape(vals[k])
				if rng.Intn(2) == 0 {
					ev = strings.ReplaceAll(ev, "+", "%20")
				}
				q = append(q, url.QueryEscape(k)+"="+ev)
			}
			entries = append(entries, ref.FlatEntry{Key: k, Val: reflect.ValueOf(vals[k])})
		}
		if rng.Intn(4) == 0 {
			// a parameter given twice (a=&b=&a=x): every occurrence is a value of that member
			k := keys[rng.Intn(len(keys))]
			nv := []string{"", "x", "same", "other"}[rng.Intn(4)]
			q = append(q, url.QueryEscape(k)+"="+url.QueryEscape(nv))
			entries = append(entries, ref.FlatEntry{Key: k, Val: reflect.ValueOf(nv)})
			res.Count("url_repeated_parameter_cases")
		}
		u := "http://h.example/p?" + strings.Join(q, "&")
		env := &ref.Env{}
		env.Begin()
		env.ExpectFlat(entries, rules, func(k string) string { return k }, "", false, nil)
		exps := env.Finish()
		res.Count("carrier|url")
		out := drive.Call(func() error { return valid.Url(u, rm) })
		wit := vWitness{Entry: "Url", Value: u, Rules: rules}
		if judged, ok := compareCall(res, "C17|url", "", out, exps, false, env, true, wit); judged {
			c17Note(res, exps)
			res.Distinct("url|" + u + "|" + fmt.Sprint(rules))
			if ok && idx < 6 && len(exps) > 0 {
				res.Sample("url", 1, map[string]interface{}{"url": u, "rules": rules, "library_returned": trunc(out.String(), 400)})
			}
		}
	}
}
