package props

import (
	"fmt"
	"hash/fnv"
	"math/rand"
	"reflect"
	"sort"
	"strings"
	"time"

	"gitee.com/xuesongtao/protoc-go-valid/valid"

	"vmon/internal/clause"
	"vmon/internal/core"
	"vmon/internal/drive"
	"vmon/internal/gen"
	"vmon/internal/ref"
)

// Shared machinery of the validation monitors (C02, C03, C04, C16, C17, C18): run a call, parse the
// returned error into clauses, compare with the reference validator.

func toActual(cls []clause.Clause) []ref.Actual {
	out := make([]ref.Actual, len(cls))
	for i, c := range cls {
		out[i] = ref.Actual{Kind: c.Kind, Path: c.Path, Paths: c.Paths, Echo: c.Echo, Label: c.Label, Text: c.Text, Raw: c.Raw}
	}
	return out
}

type vWitness struct {
	Entry    string      `json:"entry"`
	Type     string      `json:"type,omitempty"`
	Value    string      `json:"value,omitempty"`
	Rules    interface{} `json:"rules,omitempty"`
	Library  string      `json:"library_returned"`
	Expected []string    `json:"expected_clauses"`
	Diff     string      `json:"difference"`
}

func expStrings(exps []ref.Exp) []string {
	out := make([]string, len(exps))
	for i, e := range exps {
		out[i] = e.String()
	}
	return out
}

// compareCall judges one call. sigPrefix is e.g. "C02|struct"; class an extra label for the signature.
// It returns true when the call was judged (not skipped as unspecified).
func compareCall(res *core.Result, sigPrefix, class string, out drive.Out, exps []ref.Exp, entryErr bool, env *ref.Env, checkEcho bool, wit vWitness) (judged, agreed bool) {
	if env != nil && env.Unspec {
		res.Count("skipped_unspecified")
		return false, false
	}
	res.Eval()
	wit.Library = out.String()
	wit.Expected = expStrings(exps)
	fail := func(kind, rule, detail string) {
		wit.Diff = kind + ": " + detail
		sig := sigPrefix + "|" + kind
		if rule != "" {
			sig += "|" + rule
		}
		if class != "" {
			sig += "|" + class
		}
		res.Violate(sig, fmt.Sprintf("%s: %s — library returned %s; expected clauses %v; input %s rules %v", wit.Entry, wit.Diff, trunc(out.String(), 700), wit.Expected, trunc(wit.Value, 400), wit.Rules), wit)
	}
	if out.Panic != "" {
		fail("panic", out.PanicFn, out.Panic)
		return true, false
	}
	if entryErr {
		if out.Nil {
			fail("entry-error-expected", "", "a nil / unusable input must be refused with an error")
			return true, false
		}
		return true, true
	}
	if len(exps) == 0 {
		if !out.Nil {
			fail("extra", "", "no rule is violated, the call must return nil")
			return true, false
		}
		res.Count("calls_clean")
		return true, true
	}
	if out.Nil {
		r := exps[0].Rule
		if exps[0].GKind != "" {
			r = exps[0].GKind
		}
		fail("missing", r, fmt.Sprintf("returned nil although %d clauses are expected, first %s", len(exps), exps[0]))
		return true, false
	}
	// raw text: clauses joined by the separator, none trailing, none empty
	if strings.HasSuffix(out.Err, clause.Sep) || strings.HasSuffix(out.Err, ";") {
		fail("trailing-separator", "", "error text ends with the clause separator")
		return true, false
	}
	cls := clause.Parse(out.Err)
	for _, c := range cls {
		if strings.TrimSpace(c.Raw) == "" {
			fail("empty-clause", "", "empty clause between separators")
			return true, false
		}
	}
	d := ref.Diff(exps, toActual(cls), checkEcho)
	if d.Kind != "" {
		fail(d.Kind, d.Rule, d.Detail)
		return true, false
	}
	res.Count("calls_with_clauses")
	res.Count("clauses_compared", int64(len(cls)))
	if len(cls) >= 3 {
		res.Count("calls_with_3plus_clauses")
	}
	return true, true
}

// ---------------------------------------------------------------------------------------
// tagged struct types synthesised at run time

type tagPlan struct {
	TagNames []string // tag names to fill ("valid" first)
	Style    int
	MaxRules int
	Unknown  bool
	Groups   bool
	Decoys   bool // also tag keys of which a requested name is a suffix (xvalid before valid), with rules of their own
	seq      *int
}

// ruleTag builds the struct tag of one field.
func (p tagPlan) ruleTag(rng *rand.Rand, depth int, name string, ft reflect.Type) reflect.StructTag {
	parts := []string{}
	for ti, tn := range p.TagNames {
		*p.seq++
		id := fmt.Sprintf("%s%d_%d", name, ti, *p.seq)
		var rules string
		switch structish(ft) {
		case true:
			rules = []string{"required", "exist", "required,exist", "", "exist", "required|m_" + id}[rng.Intn(6)]
		default:
			rules = gen.RuleList(rng, ft, p.MaxRules, id, p.Style, p.Unknown)
			if p.Groups && rng.Intn(6) == 0 && groupable(ft) {
				g := fmt.Sprintf("%s=%d", []string{"either", "botheq"}[rng.Intn(2)], rng.Intn(2))
				if rules == "" {
					rules = g
				} else {
					rules += "," + g
				}
			}
		}
		if p.Decoys && !structish(ft) && rng.Intn(5) == 0 {
			if dr := gen.RuleList(rng, ft, 2, "x"+id, gen.MsgUnique, false); dr != "" && drive.TagSafe(dr) {
				parts = append(parts, "x"+tn+`:"`+dr+`"`)
				if rng.Intn(3) == 0 {
					continue // only the longer key: the requested name has no rules on this field
				}
			}
		}
		if rules == "" || !drive.TagSafe(rules) {
			continue
		}
		parts = append(parts, tn+`:"`+rules+`"`)
	}
	return reflect.StructTag(strings.Join(parts, " "))
}

func groupable(t reflect.Type) bool {
	switch t.Kind() {
	case reflect.String, reflect.Bool, reflect.Int, reflect.Int8, reflect.Int16, reflect.Int32, reflect.Int64, reflect.Uint, reflect.Uint8, reflect.Uint16, reflect.Uint32, reflect.Uint64, reflect.Float32, reflect.Float64:
		return true
	}
	return false
}

// structish: the field can hold sub-objects (struct, pointer(s) to struct, slice/array/map of them).
func structish(t reflect.Type) bool {
	for t.Kind() == reflect.Ptr {
		t = t.Elem()
	}
	switch t.Kind() {
	case reflect.Struct:
		return t != reflect.TypeOf(time.Time{})
	case reflect.Slice, reflect.Array, reflect.Map:
		e := t.Elem()
		for e.Kind() == reflect.Ptr {
			e = e.Elem()
		}
		return e.Kind() == reflect.Struct
	}
	return false
}

var vLeafTypes = []reflect.Type{gen.TString, gen.TString, gen.TString, gen.TBool, gen.TInt, gen.TInt8, gen.TInt32, gen.TInt64, gen.TUint, gen.TUint8, gen.TUint32, gen.TUint64, gen.TFloat32, gen.TFloat64,
	reflect.TypeOf([]int(nil)), reflect.TypeOf([]string(nil)), reflect.TypeOf([]float64(nil)), reflect.TypeOf([]uint8(nil)),
	gen.TGInt, gen.TGStr, gen.TGUint, gen.TGBool, reflect.SliceOf(gen.TGStr), reflect.SliceOf(gen.TGInt)} // defined types: same kinds, other identities

// tunedFill fills a value of a tagged type so that values sit near the bounds of the rules.
func tunedFill(rng *rand.Rand, t reflect.Type, tagName string, pZero float64) reflect.Value {
	vo := gen.ValueOpts{PZero: pZero, PEmpty: 0.15, MaxLen: 3, NilElems: true, MaxStructDepth: 4,
		Leaf: func(rng *rand.Rand, lt reflect.Type, tag reflect.StructTag) (reflect.Value, bool) {
			if lt == gen.TTime {
				if rng.Intn(2) == 0 {
					return reflect.ValueOf(time.Unix(int64(rng.Intn(1<<30)), 0).UTC()), true
				}
				return reflect.Zero(lt), true
			}
			switch lt.Kind() {
			case reflect.Ptr, reflect.Map, reflect.Array, reflect.Struct, reflect.Interface:
				return reflect.Value{}, false
			case reflect.Slice:
				if structish(lt) || lt.Elem().Kind() == reflect.Slice {
					return reflect.Value{}, false
				}
			}
			return gen.TunedLeaf(rng, lt, tag.Get(tagName), 0), true
		}}
	return gen.Fill(rng, t, vo)
}

func describeValue(v reflect.Value) string {
	s := fmt.Sprintf("%+v", safeIface(v))
	return trunc(s, 600)
}

func safeIface(v reflect.Value) (out interface{}) {
	defer func() {
		if recover() != nil {
			out = "<unprintable>"
		}
	}()
	if !v.IsValid() {
		return nil
	}
	return derefPrintable(v)
}

// derefPrintable renders pointers by their pointee so that witnesses are readable.
func derefPrintable(v reflect.Value) interface{} {
	for v.Kind() == reflect.Ptr && !v.IsNil() {
		v = v.Elem()
	}
	if v.CanInterface() {
		return v.Interface()
	}
	return v.String()
}

// ---------------------------------------------------------------------------------------
// rule maps built the documented way

// toRM turns a field->rules table into the library's RM. Two times out of three (decided by the
// table's content, so that every process builds the same thing) it goes through the builder
// NewRule().Set(...) instead of a map literal: rules passed as separate arguments, a field's rules
// given in two Set calls, and a rule shared by several fields given in one multi-name call AFTER
// the fields' own rules were set (Set appends to what a field already has). By the documented
// semantics of Set the result is the same table.
func toRM(m map[string]string) valid.RM {
	if m == nil {
		return nil
	}
	keys := make([]string, 0, len(m))
	for k := range m {
		keys = append(keys, k)
	}
	sort.Strings(keys)
	h := fnv.New32a()
	for _, k := range keys {
		h.Write([]byte(k))
		h.Write([]byte{0})
		h.Write([]byte(m[k]))
		h.Write([]byte{1})
	}
	mode := h.Sum32() % 3
	lit := valid.RM{}
	for k, v := range m {
		lit[k] = v
	}
	for _, k := range keys {
		if strings.Contains(k, ",") {
			mode = 0 // a field name with a comma cannot be given to Set
		}
	}
	if mode == 0 {
		return lit
	}
	pieces := map[string][]string{}
	for _, k := range keys {
		pieces[k] = gen.SplitOutsideQuotes(m[k])
	}
	// fields that share their last rule (>= 2 fields): that rule goes into one multi-name call
	shared := map[string][]string{}
	for _, k := range keys {
		ps := pieces[k]
		if last := ps[len(ps)-1]; last != "" {
			shared[last] = append(shared[last], k)
		}
	}
	var tail string
	for _, k := range keys { // first such rule in key order
		ps := pieces[k]
		if last := ps[len(ps)-1]; len(shared[last]) >= 2 {
			tail = last
			break
		}
	}
	rm := valid.NewRule()
	inTail := map[string]bool{}
	if tail != "" {
		for _, k := range shared[tail] {
			inTail[k] = true
		}
	}
	for _, k := range keys {
		ps := pieces[k]
		if inTail[k] {
			ps = ps[:len(ps)-1]
			if len(ps) == 0 {
				continue // the field gets its only rule from the multi-name call
			}
		}
		if mode == 2 && len(ps) >= 2 {
			rm.Set(k, ps[0])
			rm.Set(k, ps[1:]...)
		} else {
			rm.Set(k, ps...)
		}
	}
	if tail != "" {
		rm.Set(strings.Join(shared[tail], ","), tail)
	}
	return rm
}

// shareTail appends one and the same rule to two or three entries of a rule table (so that toRM
// has something to pass in a multi-name Set call).
func shareTail(rng *rand.Rand, m map[string]string, marker string) {
	if len(m) < 2 || rng.Intn(3) != 0 {
		return
	}
	keys := make([]string, 0, len(m))
	for k := range m {
		keys = append(keys, k)
	}
	sort.Strings(keys)
	rng.Shuffle(len(keys), func(i, j int) { keys[i], keys[j] = keys[j], keys[i] })
	n := 2
	if len(keys) >= 3 && rng.Intn(2) == 0 {
		n = 3
	}
	for _, k := range keys[:n] {
		if m[k] == "" {
			m[k] = "required|" + marker
		} else {
			m[k] += ",required|" + marker
		}
	}
}
