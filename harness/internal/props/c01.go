package props

import (
	"fmt"
	"math"
	"math/big"
	"math/rand"
	"reflect"
	"strconv"
	"strings"

	"vmon/internal/clause"
	"vmon/internal/core"
	"vmon/internal/drive"
	"vmon/internal/gen"
	"vmon/internal/ref"
)

// C01 — size/comparison rules judge by the documented measure with exact boundaries.

type c01Case struct {
	Carrier string `json:"carrier"`
	Kind    string `json:"kind"`
	Value   string `json:"value"`
	Rule    string `json:"rule"`
	Lib     string `json:"library_returned"`
	Want    string `json:"oracle"`
}

var singleSizeRules = []string{"ge", "le", "gt", "lt", "eq", "noeq"}

func sizeRuleText(rule string, lo, hi int64) string {
	switch rule {
	case "to", "oto":
		return rule + "=" + strconv.FormatInt(lo, 10) + "~" + strconv.FormatInt(hi, 10)
	case "le", "lt":
		return rule + "=" + strconv.FormatInt(hi, 10)
	}
	return rule + "=" + strconv.FormatInt(lo, 10)
}

// padInt writes n with pad leading zeros (010 is the decimal number ten: bounds are decimal integers).
func padInt(n int64, pad int) string {
	s := strconv.FormatInt(n, 10)
	if pad == 0 {
		return s
	}
	z := strings.Repeat("0", pad)
	if strings.HasPrefix(s, "-") {
		return "-" + z + s[1:]
	}
	return z + s
}

func sizeRuleTextPad(rule string, lo, hi int64, pad int) string {
	switch rule {
	case "to", "oto":
		return rule + "=" + padInt(lo, pad) + "~" + padInt(hi, pad)
	case "le", "lt":
		return rule + "=" + padInt(hi, pad)
	}
	return rule + "=" + padInt(lo, pad)
}

func posClass(rule string, lo, hi int64, m *big.Rat) string {
	cmp := func(b int64) string {
		switch m.Cmp(new(big.Rat).SetInt64(b)) {
		case -1:
			return "below"
		case 0:
			return "at"
		}
		return "above"
	}
	switch rule {
	case "to", "oto":
		o := "lo<=hi"
		if lo > hi {
			o = "lo>hi"
		}
		return cmp(lo) + "-lo," + cmp(hi) + "-hi," + o
	case "le", "lt":
		return cmp(hi)
	}
	return cmp(lo)
}

func kindClass(k reflect.Kind) string {
	switch k {
	case reflect.Int, reflect.Int8, reflect.Int16, reflect.Int32, reflect.Int64:
		return "int"
	case reflect.Uint, reflect.Uint8, reflect.Uint16, reflect.Uint32, reflect.Uint64:
		return "uint"
	case reflect.Float32, reflect.Float64:
		return "float"
	}
	return k.String()
}

func valStr(v reflect.Value) string {
	switch v.Kind() {
	case reflect.String:
		return strconv.Quote(v.String())
	case reflect.Float32:
		return strconv.FormatFloat(v.Float(), 'g', -1, 32)
	case reflect.Float64:
		return strconv.FormatFloat(v.Float(), 'g', -1, 64)
	}
	s := fmt.Sprintf("%v", v.Interface())
	if len(s) > 120 {
		s = s[:120] + "…"
	}
	return s
}

// judgeSize runs one (carrier, value, rule) through the library and the oracle.
// c01Msgs: custom messages a size rule may carry ("" = default wording): one byte, containing the
// message separator itself (only the first one separates), '=', blanks, CJK.
var c01Msgs = []string{"msgX", "m", "too small|try again", "值太小", "a=b|c", "msg X", "!", "x|"}

// c01Pad: one case in seven writes its bounds with 1-3 leading zeros.
func c01Pad(n int) int {
	if n%7 != 0 {
		return 0
	}
	return 1 + (n/7)%3
}

// c01Lead: one case in eleven puts a satisfied rule with a quoted, comma-containing message in front.
func c01Lead(n int) string {
	if n%11 != 0 {
		return ""
	}
	return []string{"required|'need it, really',", "required|'a,b',required,"}[(n/11)%2]
}

func c01Msg(n int) string {
	if n%3 != 0 {
		return ""
	}
	return c01Msgs[(n/3)%len(c01Msgs)]
}

func judgeSize(res *core.Result, carrier string, v reflect.Value, rule string, lo, hi int64, msg string, pad int, lead string) {
	defaultWording := msg == ""
	m, ok := ref.Measure(v)
	if !ok {
		return
	}
	text := sizeRuleTextPad(rule, lo, hi, pad)
	if pad > 0 {
		res.Count("zero_padded_bound_cases")
	}
	if !defaultWording {
		text += "|" + msg
		res.Count("message_shape|" + msg)
	}
	if lead != "" {
		// a satisfied companion rule in front (its quoted message contains the rule separator)
		text = lead + text
		res.Count("cases_with_a_quoted_companion_rule_in_front")
	}
	out, ok := drive.Carry(carrier, v, text)
	if !ok {
		return
	}
	res.Eval()
	want := ref.SizeViolated(rule, lo, hi, m)
	pc := posClass(rule, lo, hi, m)
	res.Count("cell|" + kindClass(v.Kind()) + "|" + rule + "|" + pc)
	if want {
		res.Count("expected_violated")
	} else {
		res.Count("expected_clean")
	}
	res.Count("carrier|" + carrier)
	report := func(kind, dir string) {
		wantS := "not violated"
		if want {
			wantS = "violated"
		}
		sig := strings.Join([]string{"C01", carrier, rule, v.Kind().String(), pc, dir}, "|")
		if carrier == drive.MapIface {
			// one finding for the whole carrier: interface{} elements are judged as kind Interface
			sig = "C01|map-iface|" + dir
		}
		res.Violate(sig,
			fmt.Sprintf("%s: %s value %s under %q: library returned %s, oracle says %s (measure %s) [%s]", carrier, v.Type(), valStr(v), text, out, wantS, m.RatString(), kind),
			c01Case{carrier, v.Type().String(), valStr(v), text, out.String(), wantS})
	}
	if out.Panic != "" {
		report("panic", "panic")
		return
	}
	if out.Nil == want {
		if want {
			report("verdict", "lib-accepts")
		} else {
			report("verdict", "lib-rejects")
		}
		return
	}
	if !want {
		return
	}
	// violated: every clause must be an input clause; default wording names the violated side
	cls := clause.Parse(out.Err)
	for _, cl := range cls {
		if cl.Kind != clause.Input {
			report("config-clause", "lib-config-error")
			return
		}
		if !defaultWording {
			if cl.Text != msg {
				report("custom-message", "wrong-text")
				return
			}
			continue
		}
		l := new(big.Rat).SetInt64(lo)
		h := new(big.Rat).SetInt64(hi)
		switch rule {
		case "to", "ge", "oto", "gt", "le", "lt":
			less := strings.Contains(cl.Text, "less than")
			more := strings.Contains(cl.Text, "more than")
			lowBad := (rule == "to" || rule == "ge") && m.Cmp(l) < 0 || (rule == "oto" || rule == "gt") && m.Cmp(l) <= 0
			highBad := (rule == "to" || rule == "le") && m.Cmp(h) > 0 || (rule == "oto" || rule == "lt") && m.Cmp(h) >= 0
			// only a clause that names exactly one side, and the wrong one, is judged (the wording
			// itself is not part of the property)
			if less != more && ((less && !lowBad) || (more && !highBad)) {
				report("direction-word", "wrong-side")
				return
			}
		}
	}
}

var c01Strides = []struct {
	carrier string
	every   int
}{
	{drive.Var, 1}, {drive.StructRM, 16}, {drive.MapT, 16}, {drive.MapIface, 16}, {drive.SliceMap, 32}, {drive.StructTag, 64}, {drive.StructCtx, 16},
}

func init() {
	core.Register(&core.Prop{
		ID: "C01",
		Rule: "(a) complete enumeration: every non-zero int8 and uint8 value x {ge,le,gt,lt,eq,noeq} x every bound in [-130,260], x {to,oto} x every (lo,hi) in BxB with B={-4..4,125..130,253..257}, each through Var and strided through Struct(RM), Struct(tag), a struct whose ruled field sits between time.Time, string and integer neighbours, Map[string]T, map[string]interface{}, []map; one case in seven with zero-padded bounds (010 = ten), one case in three with a custom message (one byte, containing the message separator, an equals sign, blanks, CJK); " +
			"(b) boundary-directed random: kinds int16..int64,int,uint16..uint64,uint,float32,float64,string,slices with bounds near 0, 2^7, 2^8, 2^15, 2^16, 2^31, 2^32, 2^53, 2^62, 2^63-1 and values at bound-1, bound, bound+1 (floats: adjacent floats and +-0.5; strings: rune length at the bound with multi-byte runes), strings also through Url raw/encoded. " +
			"distinct = distinct (carrier, kind, value, rule text); non-trivial = value non-zero and within 1 of a bound, or expected-violated",
		Exhaustive: func(t core.Tier) bool { return true },
		Shards:     func(t core.Tier) int { return 16 },
		Run:        runC01,
		Check: func(r *core.Result, t core.Tier) {
			tot := r.Counters["expected_violated"] + r.Counters["expected_clean"]
			if tot == 0 || r.Counters["expected_violated"]*100/tot < 25 || r.Counters["expected_clean"]*100/tot < 25 {
				r.Inconc(fmt.Sprintf("verdict mix too skewed: violated=%d clean=%d", r.Counters["expected_violated"], r.Counters["expected_clean"]))
			}
			// every (kind class x rule x {below, at, above}) cell must have been hit
			for _, kc := range []string{"int", "uint", "float", "string", "slice"} {
				for _, rule := range singleSizeRules {
					for _, pos := range []string{"below", "at", "above"} {
						if kc == "float" && false {
							continue
						}
						if r.Counters["cell|"+kc+"|"+rule+"|"+pos] == 0 {
							r.Inconc("cell never hit: " + kc + "|" + rule + "|" + pos)
						}
					}
				}
			}
			for _, s := range c01Strides {
				if r.Counters["carrier|"+s.carrier] < 1000 {
					r.Inconc("carrier under-exercised: " + s.carrier)
				}
			}
			for _, cr := range []string{drive.UrlRaw, drive.UrlEnc, drive.UrlEncFull, drive.UrlEncName} {
				if r.Counters["carrier|"+cr] < 200 {
					r.Inconc("carrier under-exercised: " + cr)
				}
			}
		},
	})
}

func runC01(c *core.Ctx) {
	res := c.Res
	res.Assume("finite floats only; for float kinds bounds are limited to |b| <= 2^53 so that the bound itself is exactly representable")
	res.Assume("bounds are within the int64 range; slices have length >= 1 (a non-nil empty slice is an empty value, C03's concern)")
	res.Assume("for to/oto with lo>hi only '>=1 clause iff violated' is required here (clause count is C02's concern)")
	// ---- (a) complete 8-bit enumeration
	B := []int64{}
	for b := int64(-4); b <= 4; b++ {
		B = append(B, b)
	}
	for b := int64(125); b <= 130; b++ {
		B = append(B, b)
	}
	for b := int64(253); b <= 257; b++ {
		B = append(B, b)
	}
	n := 0
	pair := 0
	for _, signed := range []bool{true, false} {
		for raw := 0; raw < 256; raw++ {
			var v reflect.Value
			if signed {
				x := int8(raw)
				if x == 0 {
					continue
				}
				v = reflect.ValueOf(x)
			} else {
				x := uint8(raw)
				if x == 0 {
					continue
				}
				v = reflect.ValueOf(x)
			}
			pair++
			if !c.Mine(pair) {
				continue
			}
			run := func(rule string, lo, hi int64) {
				n++
				for _, s := range c01Strides {
					if n%s.every == 0 {
						judgeSize(res, s.carrier, v, rule, lo, hi, c01Msg(n), c01Pad(n), c01Lead(n))
					}
				}
				res.DistinctEnum(1)
			}
			for _, rule := range singleSizeRules {
				for b := int64(-130); b <= 260; b++ {
					run(rule, b, b)
				}
			}
			for _, rule := range []string{"to", "oto"} {
				for _, lo := range B {
					for _, hi := range B {
						run(rule, lo, hi)
					}
				}
			}
		}
	}
	res.Count("enumerated_8bit_cases", int64(n))
	if c.Shard == 0 {
		res.Sample("8bit", 1, c01Case{drive.Var, "uint8", "5", "gt=5", "input \"5\", explain: it is less than or equal 5 num-size", "violated"})
	}

	// ---- (b) boundary-directed random
	rng := c.Rng("boundary")
	N := c.Pick(60000, 1500000)
	for i := 0; i < N; i++ {
		c01Random(res, rng, i)
	}
}

var c01Anchors = []int64{0, 1, 2, 3, 7, 10, 100, 127, 128, 129, 255, 256, 257, 32767, 32768, 65535, 65536, 1<<31 - 1, 1 << 31, 1<<32 - 1, 1 << 32, 1 << 53, 1 << 62, math.MaxInt64}

func c01Bound(rng *rand.Rand, maxAbs int64) int64 {
	for {
		var b int64
		switch rng.Intn(4) {
		case 0:
			b = int64(rng.Intn(80)) - 10
		default:
			b = c01Anchors[rng.Intn(len(c01Anchors))]
			if b < math.MaxInt64-4 {
				b += int64(rng.Intn(5)) - 2
			} else {
				b -= int64(rng.Intn(3))
			}
			if rng.Intn(3) == 0 {
				b = -b
				if rng.Intn(8) == 0 {
					b = math.MinInt64 + int64(rng.Intn(3))
				}
			}
		}
		if maxAbs > 0 && (b > maxAbs || b < -maxAbs) {
			continue
		}
		return b
	}
}

var c01Kinds = []reflect.Kind{reflect.Int16, reflect.Int32, reflect.Int64, reflect.Int, reflect.Uint16, reflect.Uint32, reflect.Uint64, reflect.Uint,
	reflect.Float32, reflect.Float64, reflect.String, reflect.Slice, reflect.Int8, reflect.Uint8}

var runePools = [][]rune{
	[]rune("abcXYZ019"),
	[]rune("测试调四川成都"),
	[]rune("😀🚀🎉"),
	[]rune("éä"), // combining marks count as runes
	[]rune("-_.~"),
	[]rune("&=+%?# /"),
}

func strOfRunes(rng *rand.Rand, n int, urlSafe bool) string {
	var sb strings.Builder
	mode := rng.Intn(4)
	for i := 0; i < n; i++ {
		var pool []rune
		switch {
		case urlSafe:
			pool = runePools[[]int{0, 4}[rng.Intn(2)]]
		case mode == 0:
			pool = runePools[0]
		case mode == 1:
			pool = runePools[1]
		default:
			pool = runePools[rng.Intn(len(runePools))]
		}
		sb.WriteRune(pool[rng.Intn(len(pool))])
	}
	return sb.String()
}

func c01Random(res *core.Result, rng *rand.Rand, i int) {
	kind := c01Kinds[rng.Intn(len(c01Kinds))]
	rules := []string{"to", "ge", "le", "oto", "gt", "lt", "eq", "noeq"}
	rule := rules[rng.Intn(len(rules))]
	var maxAbs int64
	switch kind {
	case reflect.Float32, reflect.Float64:
		maxAbs = 1 << 53
	}
	lo, hi := c01Bound(rng, maxAbs), c01Bound(rng, maxAbs)
	small := kind == reflect.String || kind == reflect.Slice
	if small && rng.Intn(6) != 0 {
		lo, hi = int64(rng.Intn(45))-3, int64(rng.Intn(45))-3
	}
	if (rule == "to" || rule == "oto") && rng.Intn(5) != 0 && lo > hi {
		lo, hi = hi, lo
	}
	if rule != "to" && rule != "oto" {
		if rule == "le" || rule == "lt" {
			lo = hi
		} else {
			hi = lo
		}
	}
	// target near one of the bounds
	target := lo
	if rng.Intn(2) == 0 {
		target = hi
	}
	delta := int64(rng.Intn(3)) - 1
	if rng.Intn(10) == 0 {
		delta = int64(rng.Intn(41)) - 20
	}
	t := new(big.Int).Add(big.NewInt(target), big.NewInt(delta))
	var v reflect.Value
	fits := func(min, max *big.Int) bool { return t.Cmp(min) >= 0 && t.Cmp(max) <= 0 && t.Sign() != 0 }
	bi := func(x int64) *big.Int { return big.NewInt(x) }
	bu := func(x uint64) *big.Int { return new(big.Int).SetUint64(x) }
	switch kind {
	case reflect.Int8:
		if !fits(bi(math.MinInt8), bi(math.MaxInt8)) {
			return
		}
		v = reflect.ValueOf(int8(t.Int64()))
	case reflect.Int16:
		if !fits(bi(math.MinInt16), bi(math.MaxInt16)) {
			t = big.NewInt(int64(int16(rng.Intn(65536))))
			if t.Sign() == 0 {
				return
			}
		}
		v = reflect.ValueOf(int16(t.Int64()))
	case reflect.Int32:
		if !fits(bi(math.MinInt32), bi(math.MaxInt32)) {
			t = big.NewInt(int64(int32(rng.Uint32())))
			if t.Sign() == 0 {
				return
			}
		}
		v = reflect.ValueOf(int32(t.Int64()))
	case reflect.Int64, reflect.Int:
		if !fits(bi(math.MinInt64), bi(math.MaxInt64)) {
			return
		}
		if kind == reflect.Int {
			v = reflect.ValueOf(int(t.Int64()))
		} else {
			v = reflect.ValueOf(t.Int64())
		}
	case reflect.Uint8:
		if !fits(bi(1), bi(math.MaxUint8)) {
			return
		}
		v = reflect.ValueOf(uint8(t.Uint64()))
	case reflect.Uint16:
		if !fits(bi(1), bi(math.MaxUint16)) {
			t = big.NewInt(int64(1 + rng.Intn(65535)))
		}
		v = reflect.ValueOf(uint16(t.Uint64()))
	case reflect.Uint32:
		if !fits(bi(1), bi(math.MaxUint32)) {
			t = big.NewInt(int64(1 + rng.Intn(1<<31)))
		}
		v = reflect.ValueOf(uint32(t.Uint64()))
	case reflect.Uint64, reflect.Uint:
		if !fits(bi(1), bu(math.MaxUint64)) || rng.Intn(6) == 0 {
			// values above 2^63 (never representable as a bound)
			t = bu(1<<63 + uint64(rng.Int63()))
			if rng.Intn(3) == 0 {
				t = bu(math.MaxUint64 - uint64(rng.Intn(3)))
			}
		}
		if kind == reflect.Uint {
			v = reflect.ValueOf(uint(t.Uint64()))
		} else {
			v = reflect.ValueOf(t.Uint64())
		}
	case reflect.Float64:
		f := float64(target) // exact: |target| <= 2^53
		switch rng.Intn(6) {
		case 0:
			f = math.Nextafter(f, math.Inf(1))
		case 1:
			f = math.Nextafter(f, math.Inf(-1))
		case 2:
			f += 0.5
		case 3:
			f -= 0.5
		case 4:
			f += float64(delta)
		}
		if f == 0 || math.IsInf(f, 0) || math.IsNaN(f) {
			return
		}
		v = reflect.ValueOf(f)
	case reflect.Float32:
		f := float32(target)
		switch rng.Intn(6) {
		case 0:
			f = math.Nextafter32(f, float32(math.Inf(1)))
		case 1:
			f = math.Nextafter32(f, float32(math.Inf(-1)))
		case 2:
			f += 0.5
		case 3:
			f -= 0.5
		case 4:
			f += float32(delta)
		}
		if f == 0 || math.IsInf(float64(f), 0) || math.IsNaN(float64(f)) {
			return
		}
		v = reflect.ValueOf(f)
	case reflect.String:
		n := t.Int64()
		if !t.IsInt64() || n < 1 || n > 70 {
			n = int64(1 + rng.Intn(12))
		}
		v = reflect.ValueOf(strOfRunes(rng, int(n), rng.Intn(3) == 0))
	case reflect.Slice:
		n := t.Int64()
		if !t.IsInt64() || n < 1 || n > 64 {
			n = int64(1 + rng.Intn(8))
		}
		switch rng.Intn(4) {
		case 0:
			s := make([]int, n)
			for j := range s {
				s[j] = rng.Intn(5)
			}
			v = reflect.ValueOf(s)
		case 1:
			s := make([]string, n)
			for j := range s {
				s[j] = strOfRunes(rng, rng.Intn(3), false)
			}
			v = reflect.ValueOf(s)
		case 2:
			s := make([]float64, n)
			v = reflect.ValueOf(s)
		default:
			s := make([]uint16, n)
			v = reflect.ValueOf(s)
		}
	}
	if v.Kind() == reflect.Slice {
		// spare capacity (append-grown slices, prefixes of longer slices): the measure is the length
		if extra := (v.Len()*7 + 3) % 4; extra > 0 {
			s2 := reflect.MakeSlice(v.Type(), v.Len(), v.Len()+extra)
			reflect.Copy(s2, v)
			v = s2
			res.Count("slices_with_spare_capacity")
		}
	}
	// one case in six uses a DEFINED type of the same kind (type GInt int32, type GStr string, ...):
	// the verdict must not depend on the type's identity
	if rng.Intn(6) == 0 {
		switch v.Kind() {
		case reflect.Int32:
			v = v.Convert(gen.TGInt)
		case reflect.Uint16:
			v = v.Convert(gen.TGUint)
		case reflect.String:
			v = v.Convert(gen.TGStr)
		case reflect.Slice:
			if v.Type().Elem().Kind() == reflect.String {
				v = v.Convert(reflect.SliceOf(gen.TString)) // unchanged; defined element types below
				d := reflect.MakeSlice(reflect.SliceOf(gen.TGStr), v.Len(), v.Len())
				for j := 0; j < v.Len(); j++ {
					d.Index(j).SetString(v.Index(j).String())
				}
				v = d
			}
		}
		res.Count("defined_type_cases")
	}
	m, _ := ref.Measure(v)
	text := sizeRuleText(rule, lo, hi)
	near := false
	for _, b := range []int64{lo, hi} {
		d := new(big.Rat).Sub(m, new(big.Rat).SetInt64(b))
		if d.Abs(d).Cmp(big.NewRat(1, 1)) <= 0 {
			near = true
		}
	}
	carriers := []string{drive.Var, drive.StructRM}
	if i%2 == 1 {
		carriers = append(carriers, drive.StructCtx)
	}
	switch v.Kind() {
	case reflect.Slice:
		if i%4 == 0 {
			carriers = append(carriers, drive.StructTag)
		}
	case reflect.String:
		carriers = append(carriers, drive.UrlRaw, drive.UrlEnc, drive.UrlEncFull, drive.MapT)
		if i%3 == 0 {
			carriers = append(carriers, drive.UrlEncName)
		}
		if i%4 == 0 {
			carriers = append(carriers, drive.MapIface, drive.SliceMap, drive.StructTag)
		}
	default:
		if i%2 == 0 {
			carriers = append(carriers, drive.MapT, drive.MapIface)
		}
		if i%8 == 0 {
			carriers = append(carriers, drive.SliceMap, drive.StructTag)
		}
	}
	for _, cr := range carriers {
		judgeSize(res, cr, v, rule, lo, hi, c01Msg(i), c01Pad(i), c01Lead(i))
		if near || ref.SizeViolated(rule, lo, hi, m) {
			res.Distinct(cr + "|" + v.Type().String() + "|" + valStr(v) + "|" + text)
		}
	}
	res.Count("random_cases")
	if near {
		res.Count("random_within_1_of_bound")
	}
	if i < 3 {
		res.Sample("boundary-random", 3, map[string]string{"kind": v.Type().String(), "value": valStr(v), "rule": text})
	}
}
