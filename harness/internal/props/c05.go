package props

import (
	"fmt"
	"math/rand"
	"os"
	"path/filepath"
	"reflect"
	"strconv"
	"strings"
	"time"
	_ "time/tzdata"
	"unicode/utf8"

	"vmon/internal/core"
	"vmon/internal/drive"
	"vmon/internal/ref"
)

// C05 — format and content rules accept exactly their documented language.

type c05Rule struct {
	Text   string                      // rule text
	Member func(rng *rand.Rand) string // a valid member
	Alpha  string                      // extra characters for random strings / edits
}

func digits(rng *rand.Rand, n int) string {
	b := make([]byte, n)
	for i := range b {
		b[i] = byte('0' + rng.Intn(10))
	}
	return string(b)
}

func pick(rng *rand.Rand, xs ...string) string { return xs[rng.Intn(len(xs))] }

func word(rng *rand.Rand, n int) string {
	const w = "abcxyzABC0189_"
	b := make([]byte, n)
	for i := range b {
		b[i] = w[rng.Intn(len(w))]
	}
	return string(b)
}

func genEmail(rng *rand.Rand) string {
	runs := func(seps string, min int) string {
		n := min + rng.Intn(3)
		s := word(rng, 1+rng.Intn(4))
		for i := 1; i < n; i++ {
			s += string(seps[rng.Intn(len(seps))]) + word(rng, 1+rng.Intn(3))
		}
		return s
	}
	dom := runs("-.", 1) + "." + runs("-.", 1)
	return runs("-+.", 1) + "@" + dom
}

func genIPv4(rng *rand.Rand) string {
	oct := func() string {
		return strconv.Itoa([]int{0, 1, 9, 10, 99, 100, 199, 200, 249, 250, 255, rng.Intn(256)}[rng.Intn(12)])
	}
	return oct() + "." + oct() + "." + oct() + "." + oct()
}

func genIPv6(rng *rand.Rand) string {
	grp := func() string {
		g := strconv.FormatInt(int64(rng.Intn(0x10000)), 16)
		if rng.Intn(3) == 0 {
			g = strings.ToUpper(g)
		}
		if rng.Intn(4) == 0 && len(g) < 4 {
			g = strings.Repeat("0", 4-len(g)) + g
		}
		return g
	}
	n := 8
	tail := ""
	if rng.Intn(5) == 0 {
		n = 6
		tail = genIPv4(rng)
	}
	gs := make([]string, n)
	for i := range gs {
		gs[i] = grp()
	}
	if rng.Intn(2) == 0 {
		// compress a run
		a := rng.Intn(n + 1)
		b := a + 1 + rng.Intn(n-a+1)
		if b > n {
			b = n
		}
		left, right := strings.Join(gs[:a], ":"), strings.Join(gs[b:], ":")
		if tail != "" {
			if right != "" {
				right += ":"
			}
			right += tail
		}
		return left + "::" + right
	}
	s := strings.Join(gs, ":")
	if tail != "" {
		s += ":" + tail
	}
	return s
}

func genDate(rng *rand.Rand, level int, s1, s2, s3 string) string {
	y := []int{0, 1, 1900, 1996, 2000, 2023, 2024, 2100, 9999, rng.Intn(10000)}[rng.Intn(10)]
	m := 1 + rng.Intn(12)
	dmax := 31
	switch m {
	case 2:
		dmax = 28
		if y%4 == 0 && (y%100 != 0 || y%400 == 0) {
			dmax = 29
		}
	case 4, 6, 9, 11:
		dmax = 30
	}
	d := []int{1, dmax, 1 + rng.Intn(dmax)}[rng.Intn(3)]
	s := fmt.Sprintf("%04d", y)
	if level >= 2 {
		s += s1 + fmt.Sprintf("%02d", m)
	}
	if level >= 3 {
		s += s1 + fmt.Sprintf("%02d", d)
	}
	if level >= 6 {
		h := []int{0, 23, rng.Intn(24)}[rng.Intn(3)]
		mi := []int{0, 59, rng.Intn(60)}[rng.Intn(3)]
		se := []int{0, 59, rng.Intn(60)}[rng.Intn(3)]
		s += s2 + fmt.Sprintf("%02d", h) + s3 + fmt.Sprintf("%02d", mi) + s3 + fmt.Sprintf("%02d", se)
	}
	return s
}

func genJSON(rng *rand.Rand, depth int) string {
	ws := func() string { return pick(rng, "", "", " ", "\n", "\t") }
	switch r := rng.Intn(8); {
	case depth < 3 && r == 0:
		n := rng.Intn(3)
		parts := []string{}
		for i := 0; i < n; i++ {
			parts = append(parts, ws()+`"`+word(rng, rng.Intn(3))+`"`+ws()+":"+genJSON(rng, depth+1))
		}
		return ws() + "{" + strings.Join(parts, ",") + ws() + "}" + ws()
	case depth < 3 && r == 1:
		n := rng.Intn(3)
		parts := []string{}
		for i := 0; i < n; i++ {
			parts = append(parts, genJSON(rng, depth+1))
		}
		return ws() + "[" + strings.Join(parts, ",") + "]" + ws()
	case r == 2:
		return pick(rng, "true", "false", "null")
	case r == 3 || r == 4:
		if rng.Intn(4) == 0 { // literals no machine number holds: the rule is about the text (RFC 8259 puts no limit on range or precision)
			return pick(rng, "1e309", "-1e999", "2E308", "1e-400", "0e999", "1.7976931348623157e308", "1.7976931348623159e308", "123456789012345678901234567890",
				"-"+strings.Repeat("9", 310+rng.Intn(100)), "0."+strings.Repeat("0", 330)+"1", "1E+400", "18446744073709551616", "-9223372036854775809", "4.9e-325")
		}
		return pick(rng, "0", "-0", "12", "-3.5", "1e5", "2.5E-3", "10.01", "1E+2")
	default:
		return `"` + pick(rng, "", "a", "测试", `\n`, `\"`, `é`, "a b", `\\`, `\/`) + `"`
	}
}

var reRules = []string{"re='^[a-z]+$'", "re='\\d{2}'", "re='^(ab|cd)$'", "re='a,b'", "re='^x\\'y$'", "re='^[A-Za-z0-9]{3,5}$'|msg", "re='[一-龥]'", "re='^a|b$'|must match",
	// a message that itself contains single quotes (quote-wrapped because of its comma, or an apostrophe): the pattern ends at ITS closing quote
	"re='^[a-z]+$'|'lowercase only, please'", "re='^[a-z]+$'|it's lowercase only", "re='^(ab|cd)$'|'ab' or 'cd'"}

var dateSepAlphabet = []string{"-", "/", ".", ":", " ", "_", ""}

func c05Rules(rng *rand.Rand, dir, file string) []c05Rule {
	rs := []c05Rule{
		{"phone", func(r *rand.Rand) string { return "1" + string(byte('3'+r.Intn(7))) + digits(r, 9) }, ",012"},
		{"email", genEmail, "@.-+_!# "},
		{"idcard", func(r *rand.Rand) string {
			switch r.Intn(3) {
			case 0:
				return digits(r, 15)
			case 1:
				return digits(r, 18)
			}
			return digits(r, 17) + pick(r, "X", "x")
		}, "Xx"},
		{"ip", func(r *rand.Rand) string {
			if r.Intn(2) == 0 {
				return genIPv4(r)
			}
			return genIPv6(r)
		}, ".:af0%"},
		{"ipv4", genIPv4, ".:0"},
		{"ipv6", genIPv6, ".:af0%"},
		{"year", func(r *rand.Rand) string { return genDate(r, 1, "", "", "") }, "-0"},
		{"int", func(r *rand.Rand) string {
			if r.Intn(5) == 0 {
				return pick(r, "18446744073709551615", "18446744073709551616", "9223372036854775808", digits(r, 20+r.Intn(30))) // beyond every machine integer
			}
			return digits(r, 1+r.Intn(12))
		}, "-+.e "},
		{"float", func(r *rand.Rand) string { return digits(r, 1+r.Intn(5)) + "." + digits(r, 1+r.Intn(5)) }, ".x,-+e"},
		{"ints", func(r *rand.Rand) string {
			n := 1 + r.Intn(4)
			p := make([]string, n)
			for i := range p {
				p[i] = digits(r, 1+r.Intn(3))
				if r.Intn(12) == 0 {
					p[i] = pick(r, "18446744073709551616", digits(r, 25))
				}
			}
			return strings.Join(p, ",")
		}, ",-. "},
		{"ints=-", func(r *rand.Rand) string {
			n := 1 + r.Intn(4)
			p := make([]string, n)
			for i := range p {
				p[i] = digits(r, 1+r.Intn(3))
				if r.Intn(12) == 0 {
					p[i] = pick(r, "18446744073709551616", digits(r, 25))
				}
			}
			return strings.Join(p, "-")
		}, ",-"},
		{"ints=--", func(r *rand.Rand) string {
			return digits(r, 1+r.Intn(3)) + "--" + digits(r, 1+r.Intn(3)) + pick(r, "", "--7", "--"+digits(r, 2))
		}, "-1"},
		{"ints=、", func(r *rand.Rand) string {
			return digits(r, 1+r.Intn(3)) + "、" + digits(r, 1+r.Intn(3)) + pick(r, "", "、30")
		}, "、,1"},
		{"ints=::|msg", func(r *rand.Rand) string { return digits(r, 2) + "::" + digits(r, 1) }, ":1"},
		{"unique", func(r *rand.Rand) string {
			pool := []string{"a", "b", "1", "测", "ab", "", "2"}
			r.Shuffle(len(pool), func(i, j int) { pool[i], pool[j] = pool[j], pool[i] })
			return strings.Join(pool[:1+r.Intn(5)], ",")
		}, ",ab12测,ab12测"},
		{"json", func(r *rand.Rand) string { return genJSON(r, 0) }, "{}[]\":,\\ tn"},
		// documents around and beyond 256 bytes (a long value is judged like a short one)
		{"json|msg", func(r *rand.Rand) string {
			n := []int{250, 254, 255, 256, 257, 300, 5000}[r.Intn(7)]
			if r.Intn(2) == 0 {
				return `{"k":"` + strings.Repeat("x", n-8) + `"}`
			}
			return "[" + strings.Repeat("1,", (n-3)/2) + "1]"
		}, "{}[]\":,x1"},
		{"prefix=ab", func(r *rand.Rand) string { return "ab" + word(r, r.Intn(4)) }, "ab"},
		{"prefix=测试|msg", func(r *rand.Rand) string { return "测试" + word(r, r.Intn(4)) }, "测试"},
		{"suffix=.go", func(r *rand.Rand) string { return word(r, r.Intn(4)) + ".go" }, ".go"},
		{"suffix=ab|后缀", func(r *rand.Rand) string { return word(r, r.Intn(4)) + "ab" }, "ab"},
		{"in=(a/b/cd)", func(r *rand.Rand) string { return pick(r, "a", "b", "cd", "a/b", "b/cd", "a/b/cd") }, "abcd/()"}, // a value that is a run of options (with their separator) is not an option
		{"in=(1/23/4.5)|msg", func(r *rand.Rand) string { return pick(r, "1", "23", "4.5", "1/23", "23/4.5") }, "12345./"},
		{"in=(测/试/ab)", func(r *rand.Rand) string { return pick(r, "测", "试", "ab", "测/试", "试/ab", "/", "测试") }, "测试ab/"},
		{"include=(ab/cd)", func(r *rand.Rand) string { return pick(r, "ab", "xcdx", "b/c", "a/d", "/") }, "abcd/"},
		{"in=(a/'/d'/'x/y')", func(r *rand.Rand) string { return pick(r, "a", "/d", "x/y") }, "a/dxy'"},
		{"in=('f(x)'/b)", func(r *rand.Rand) string { return pick(r, "f(x)", "b") }, "f(x)b'"},
		{"in=(:)/:(/c)|msg", func(r *rand.Rand) string { return pick(r, ":)", ":(", "c") }, ":()c"},
		{"include=('(ok)'/yes)", func(r *rand.Rand) string { return word(r, r.Intn(2)) + pick(r, "(ok)", "yes") + word(r, r.Intn(2)) }, "(ok)yes"},
		{"include=(hello/te st)", func(r *rand.Rand) string { return word(r, r.Intn(3)) + pick(r, "hello", "te st") + word(r, r.Intn(3)) }, "helo tes"},
		{"include=('a/b'/c)", func(r *rand.Rand) string { return word(r, r.Intn(2)) + pick(r, "a/b", "c") + word(r, r.Intn(2)) }, "a/bc'"},
	}
	// date rules with separators (all written forms)
	for _, s := range dateSepAlphabet {
		s := s
		forms := []string{"='" + s + "'"}
		if s != "" && s != " " {
			forms = append(forms, "="+s)
		}
		for _, f := range forms {
			rs = append(rs, c05Rule{"year2month" + f, func(r *rand.Rand) string { return genDate(r, 2, s, "", "") }, "-/.: _0"})
			rs = append(rs, c05Rule{"date" + f, func(r *rand.Rand) string { return genDate(r, 3, s, "", "") }, "-/.: _0"})
			rs = append(rs, c05Rule{"datetime" + f, func(r *rand.Rand) string { return genDate(r, 6, s, " ", ":") }, "-/.: _0"})
		}
	}
	// a comma as the one separator of date / year2month, protected by quotes (alone, with a message, with a rule behind it in the list)
	for _, cs := range []string{",", ", ", ",-"} {
		cs := cs
		rs = append(rs, c05Rule{"year2month='" + cs + "'", func(r *rand.Rand) string { return genDate(r, 2, cs, "", "") }, "-/.: _0,"})
		rs = append(rs, c05Rule{"date='" + cs + "'", func(r *rand.Rand) string { return genDate(r, 3, cs, "", "") }, "-/.: _0,"})
		rs = append(rs, c05Rule{"date='" + cs + "'|日期 msg", func(r *rand.Rand) string { return genDate(r, 3, cs, "", "") }, "-/.: _0,"})
	}
	rs = append(rs, c05Rule{"year2month", func(r *rand.Rand) string { return genDate(r, 2, "-", "", "") }, "-/.: _0"})
	rs = append(rs, c05Rule{"date", func(r *rand.Rand) string { return genDate(r, 3, "-", "", "") }, "-/.: _0"})
	rs = append(rs, c05Rule{"datetime", func(r *rand.Rand) string { return genDate(r, 6, "-", " ", ":") }, "-/.: _0,"})
	rs = append(rs, c05Rule{"datetime|应该为 xxxx-xx-xx xx:xx:xx 的时间格式", func(r *rand.Rand) string { return genDate(r, 6, "-", " ", ":") }, "-/.: _0,"})
	// every separator triple (343), two-piece and one-piece lists
	for _, a := range dateSepAlphabet {
		for _, b := range dateSepAlphabet {
			a, b := a, b
			rs = append(rs, c05Rule{"datetime='" + a + "," + b + "'", func(r *rand.Rand) string { return genDate(r, 6, a, b, ":") }, "-/.: _0,"})
			for _, cc := range dateSepAlphabet {
				cc := cc
				rs = append(rs, c05Rule{"datetime='" + a + "," + b + "," + cc + "'", func(r *rand.Rand) string { return genDate(r, 6, a, b, cc) }, "-/.: _0,"})
			}
		}
	}
	for _, t := range reRules {
		t := t
		rs = append(rs, c05Rule{t, func(r *rand.Rand) string {
			return pick(r, "abc", "12", "ab", "cd", "a,b", "x'y", "Ab1", "测", "a", "b", "abcd", "x", "aab", "zb")
		}, "abcdxy',12测AB"})
	}
	rs = append(rs, c05Rule{"file", func(r *rand.Rand) string { return file }, ""})
	rs = append(rs, c05Rule{"dir", func(r *rand.Rand) string { return dir }, ""})
	return rs
}

// the last characters are look-alikes outside ASCII (full-width, Arabic-Indic and Devanagari digits, a superscript,
// full-width letter / dot / at-sign / hyphen / colon): Unicode classes are not the documented ASCII ones
const c05BaseAlpha = "0123456789azAZ.,-+_@:/ '\"()|~=\t\x00\n测X" + "１９٣२²ａ．＠－："

func editOnce(rng *rand.Rand, s string, alpha string) string {
	rs := []rune(s)
	al := []rune(alpha)
	switch op := rng.Intn(4); {
	case op == 0 && len(rs) > 0: // delete
		i := rng.Intn(len(rs))
		return string(append(append([]rune{}, rs[:i]...), rs[i+1:]...))
	case op == 1: // insert
		i := rng.Intn(len(rs) + 1)
		return string(append(append(append([]rune{}, rs[:i]...), al[rng.Intn(len(al))]), rs[i:]...))
	case op == 2 && len(rs) > 0: // substitute
		i := rng.Intn(len(rs))
		o := append([]rune{}, rs...)
		o[i] = al[rng.Intn(len(al))]
		return string(o)
	case len(rs) > 1: // transpose
		i := rng.Intn(len(rs) - 1)
		o := append([]rune{}, rs...)
		o[i], o[i+1] = o[i+1], o[i]
		return string(o)
	}
	return s + string(al[rng.Intn(len(al))])
}

func ruleKeyOf(text string) string {
	k, _, _, _ := ref.SplitRule(text)
	return k
}

func init() {
	core.Register(&core.Prop{
		ID: "C05",
		Rule: "[plus: date / datetime texts on every wall-clock time skipped by six daylight-saving zones in 2012-2026, judged with time.Local set to that zone; int on floats with a fractional part] per rule text (phone, email, idcard, ip, ipv4, ipv6, year, year2month/date with 7 separators quoted and unquoted, datetime with every separator triple from {- / . : space _ empty}^3 plus 1- and 2-piece lists, int, ints with default and custom separator, float, re with escaped quote / alternation / comma / message, unique, json, prefix, suffix, in, include with quoted options and values that are runs of options, file, dir incl. symbolic links to a file / a directory / nothing): valid members from a per-rule constructor, every kind of single-character edit of a member (delete / insert / substitute / transpose) and random strings over an alphabet with digits, letters, CJK, punctuation, quotes, tab, NUL and newline; numeric and slice inputs for in/int/ints/float/unique. " +
			"Verdict through Var (1/8 also through Struct) compared with a hand-written three-valued recogniser (no regexp, no time.Parse). distinct = distinct (rule text, value); non-trivial = recogniser decided in/out (not 'unspecified')",
		Shards: func(t core.Tier) int { return 16 },
		Run:    runC05,
		Check: func(r *core.Result, t core.Tier) {
			for _, k := range []string{"phone", "email", "idcard", "ip", "ipv4", "ipv6", "year", "year2month", "date", "datetime", "int", "ints", "float", "re", "unique", "json", "prefix", "suffix", "in", "include"} {
				for _, side := range []string{"in", "out"} {
					if r.Counters["judged|"+k+"|"+side] < 200 {
						r.Inconc(fmt.Sprintf("rule %s: only %d judged %s", k, r.Counters["judged|"+k+"|"+side], side))
					}
					if r.Counters["edit|"+k+"|"+side] < 100 {
						r.Inconc(fmt.Sprintf("rule %s: only %d single-edit near-misses judged %s", k, r.Counters["edit|"+k+"|"+side], side))
					}
				}
			}
			for _, k := range []string{"file", "dir"} {
				if r.Counters["judged|"+k+"|in"] == 0 || r.Counters["judged|"+k+"|out"] == 0 {
					r.Inconc("rule " + k + " not judged on both sides")
				}
			}
		},
	})
}

func runC05(c *core.Ctx) {
	res := c.Res
	res.Assume("unspecified (skipped and counted): IPv4-mapped IPv6 text under ipv4/ipv6, octets with leading zeros, IPv6 zones, int/ints/float strings with sign or exponent, e-mail characters from RFC 5322 atext beyond word characters, invalid UTF-8 inside JSON strings, invalid regular expressions, date separators outside {- / . : space _}, int on float kinds, float on integer kinds")
	res.Assume("file / dir: a path denotes what it resolves to (symbolic links are followed, a dangling link does not exist)")
	res.Assume("the regular-expression engine is trusted for re; only the extraction of the pattern from the rule text is under test")
	rng := c.Rng("lang")
	dir := filepath.Join(c.WorkDir, "tree")
	os.MkdirAll(filepath.Join(dir, "sub"), 0o755)
	file := filepath.Join(dir, "f.txt")
	os.WriteFile(file, []byte("x"), 0o644)
	// symbolic links: to a file, to a directory, dangling, and a link in a non-final path component
	lnFile, lnDir, lnDangling := filepath.Join(dir, "ln-file"), filepath.Join(dir, "ln-dir"), filepath.Join(dir, "ln-dangling")
	os.Symlink(file, lnFile)
	os.Symlink(filepath.Join(dir, "sub"), lnDir)
	os.Symlink(filepath.Join(dir, "nowhere"), lnDangling)
	os.WriteFile(filepath.Join(dir, "sub", "g.txt"), []byte("y"), 0o644)
	viaLink := filepath.Join(lnDir, "g.txt")
	links := false
	if fi, err := os.Lstat(lnDir); err == nil && fi.Mode()&os.ModeSymlink != 0 {
		links = true
	}
	fsOracle := func(p string) (bool, bool, bool) {
		switch p {
		case file:
			return true, true, false
		case dir, filepath.Join(dir, "sub"):
			return true, true, true
		case filepath.Join(dir, "missing"), filepath.Join(dir, "f.txt2"), file + "/x":
			return true, false, false
		}
		if links {
			switch p {
			case lnFile, viaLink:
				return true, true, false
			case lnDir:
				return true, true, true
			case lnDangling:
				return true, false, false
			}
		}
		return false, false, false
	}
	rules := c05Rules(rng, dir, file)
	perRule := c.Pick(60, 900)
	n := 0
	judge := func(text string, v reflect.Value, class string) {
		if v.IsZero() {
			return // rules are only evaluated on non-empty values (C03)
		}
		key, arg, _, _ := ref.SplitRule(text)
		want := ref.JudgeRule(key, arg, v, fsOracle)
		if want == ref.Unspec {
			res.Count("unspecified|" + key)
			return
		}
		n++
		carrier := drive.Var
		if n%8 == 0 {
			carrier = drive.StructRM
		}
		out, ok := drive.Carry(carrier, v, text)
		if !ok {
			return
		}
		res.Eval()
		res.Count("judged|" + key + "|" + want.String())
		if class == "edit" {
			res.Count("edit|" + key + "|" + want.String())
		}
		res.Distinct(text + "\x00" + valStr(v))
		wit := map[string]string{"carrier": carrier, "rule": text, "value": valStr(v), "kind": v.Type().String(), "library_returned": out.String(), "oracle": want.String()}
		cls := c05Class(key, text, v)
		if out.Panic != "" {
			res.Violate("C05|"+key+"|panic|"+cls, fmt.Sprintf("%s value %s under %q panicked: %s", v.Type(), valStr(v), text, out.Panic), wit)
			return
		}
		libIn := out.Nil
		if !out.Nil {
			first := out.Err
			if !strings.HasPrefix(first, `input "`) && !strings.HasPrefix(first, `"F" input "`) {
				res.Violate("C05|"+key+"|config-error|"+cls, fmt.Sprintf("%s value %s under well-formed rule %q: library reports a rule-writing error: %s", v.Type(), valStr(v), text, trunc(out.Err, 200)), wit)
				return
			}
		}
		if libIn != (want == ref.In) {
			dir := "lib-accepts"
			if !libIn {
				dir = "lib-rejects"
			}
			res.Violate("C05|"+key+"|"+dir+"|"+cls, fmt.Sprintf("%s value %s under %q: library returned %s, recogniser says %s", v.Type(), valStr(v), text, out, want), wit)
		}
		if n%5000 == 1 {
			res.Sample(key, 1, wit)
		}
	}
	for _, r := range rules {
		// every shard visits every rule with its own random stream
		alpha := c05BaseAlpha + r.Alpha
		if rng.Intn(2) == 0 { // edits biased to the rule's own characters: near-misses on both sides of the verdict
			alpha = r.Alpha + "0123456789" + r.Alpha
		}
		key := ruleKeyOf(r.Text)
		cnt := perRule
		if key == "datetime" && strings.Count(r.Text, ",") >= 1 {
			cnt = perRule/30 + 1 // 399 datetime separator lists
		}
		for i := 0; i < cnt; i++ {
			m := r.Member(rng)
			judge(r.Text, reflect.ValueOf(m), "member")
			for e := 0; e < 6; e++ {
				judge(r.Text, reflect.ValueOf(editOnce(rng, m, alpha)), "edit")
			}
			if rng.Intn(3) == 0 {
				judge(r.Text, reflect.ValueOf(editOnce(rng, editOnce(rng, m, alpha), alpha)), "edit2")
			}
			// random string
			al := []rune(alpha)
			l := 1 + rng.Intn(14)
			rs := make([]rune, l)
			for j := range rs {
				rs[j] = al[rng.Intn(len(al))]
			}
			if utf8.ValidString(string(rs)) {
				judge(r.Text, reflect.ValueOf(string(rs)), "random")
			}
		}
		if key == "file" || key == "dir" {
			for _, p := range []string{file, dir, filepath.Join(dir, "sub"), filepath.Join(dir, "missing"), filepath.Join(dir, "f.txt2"), file + "/x", lnFile, lnDir, lnDangling, viaLink} {
				judge(r.Text, reflect.ValueOf(p), "member")
				if links && (p == lnFile || p == lnDir || p == lnDangling) {
					res.Count("symlink_paths_judged")
				}
			}
		}
	}
	// directed near-misses the design lists
	if c.Shard == 0 {
		for _, d := range [][2]string{{"float", "1x5"}, {"float", "1.5"}, {"phone", "1,123456789"}, {"phone", "13540042617"}, {"datetime", "2021-01-11 3:04:05"}, {"datetime", "2021-01-11 23:22:11.5"},
			{"datetime", "2021-01-11 23:22:11,5"}, {"datetime", "2021-01-11   23:22:11"}, {"datetime", "2021-02-30 00:00:00"}, {"date", "2021-13-01"}, {"date", "2024-02-29"}, {"date", "2023-02-29"},
			{"date=/", "2021/1/22"}, {"year", "996"}, {"year", "19960"}, {"year2month", "2020-1"}, {"date", " 2021-01-02"}, {"date", "2021-01-02 "}, {"datetime", "2021-01-11T23:22:11"}, {"datetime", "2021-01-11 24:00:00"},
			{"datetime", "2021-01-11 23:60:00"}, {"datetime", "2021-01-11 23:59:60"}, {"email", "a@b.cc\n"}, {"idcard", "51132119900101123x"}, {"ip", "1.2.3.4.5"}, {"ipv6", "::"}, {"ipv6", "1::2::3"}, {"json", "{\"a\":1,}"}, {"json", " [1] "}} {
			judge(d[0], reflect.ValueOf(d[1]), "edit")
		}
	}
	// ---- a date or a time of day is text: what the rule accepts does not depend on the zone the process runs in. The
	// wall-clock times that a zone with daylight saving skips (02:30 on the night the clocks go forward) are members
	// like any other; they are judged with the process's local zone set to such a zone. The zone is found with the time
	// package; the verdict comes from the recogniser, which knows no zones.
	if c.Shard%4 == 1 {
		saved := time.Local
		for _, zn := range []string{"America/New_York", "Europe/Berlin", "Australia/Lord_Howe", "America/Sao_Paulo", "Asia/Tehran", "Pacific/Apia"} {
			loc, err := time.LoadLocation(zn)
			if err != nil {
				res.Count("zones_not_available")
				continue
			}
			time.Local = loc
			for y := 2012; y <= 2026; y++ {
				for d := time.Date(y, 1, 1, 12, 0, 0, 0, time.UTC); d.Year() == y; d = d.AddDate(0, 0, 1) {
					for _, hm := range [][2]int{{0, 0}, {0, 30}, {1, 30}, {2, 0}, {2, 15}, {2, 30}, {3, 30}, {23, 59}} {
						t := time.Date(y, d.Month(), d.Day(), hm[0], hm[1], 0, 0, loc)
						if t.Hour() == hm[0] && t.Minute() == hm[1] && t.Day() == d.Day() {
							continue // this wall-clock time exists in the zone
						}
						res.Count("skipped_wall_clock_times_judged")
						txt := fmt.Sprintf("%04d-%02d-%02d %02d:%02d:00", y, int(d.Month()), d.Day(), hm[0], hm[1])
						judge("datetime", reflect.ValueOf(txt), "member")
						judge("datetime='/,T,.'", reflect.ValueOf(fmt.Sprintf("%04d/%02d/%02dT%02d.%02d.00", y, int(d.Month()), d.Day(), hm[0], hm[1])), "member")
						judge("date", reflect.ValueOf(txt[:10]), "member")
					}
				}
			}
			// and ordinary members and near-misses under that zone
			for _, d := range [][2]string{{"datetime", "2021-01-11 23:22:11"}, {"datetime", "2021-01-11 24:00:00"}, {"datetime", "2021-02-30 00:00:00"}, {"date", "2024-02-29"}, {"date", "2023-02-29"}, {"year2month", "2020-12"}, {"year", "1996"}} {
				judge(d[0], reflect.ValueOf(d[1]), "edit")
			}
		}
		time.Local = saved
	}
	// ---- numeric and slice inputs
	M := c.Pick(1500, 40000)
	for i := 0; i < M; i++ {
		var v reflect.Value
		var text string
		switch rng.Intn(9) {
		case 0:
			text = pick(rng, "in=(1/2/3/40)", "in=(-1/0/255)", "in=(1.5/2/0.1)|msg", "in=(0.0000005/1000000000000000000000/0.000001/123456789012345680000)")
			switch rng.Intn(5) {
			case 0:
				v = reflect.ValueOf(int32(rng.Intn(6)))
			case 1:
				v = reflect.ValueOf(uint8([]int{1, 2, 3, 40, 255, 4}[rng.Intn(6)]))
			case 2:
				v = reflect.ValueOf([]float64{1.5, 2, 0.1, 0.25, 3, 1, 0.0000005, 1e21, 0.000001, 123456789012345680000}[rng.Intn(10)])
			case 3:
				v = reflect.ValueOf([]float32{1.5, 2, 0.1, 0.25, 40, 0.000001, 0.0000005}[rng.Intn(7)])
			default:
				v = reflect.ValueOf(int64(rng.Intn(5) - 2))
			}
		case 1:
			text = "int"
			v = []reflect.Value{reflect.ValueOf(int8(-3)), reflect.ValueOf(uint16(7)), reflect.ValueOf(int64(1) << 40), reflect.ValueOf(uint(9)),
				reflect.ValueOf(float32(1.5)), reflect.ValueOf(0.25), reflect.ValueOf(-0.5), reflect.ValueOf(2.0), reflect.ValueOf(1e300 + 0.0), reflect.ValueOf(float32(7.75))}[rng.Intn(10)]
			text = pick(rng, "int", "int", "int|msg")
		case 2:
			text = "float"
			v = []reflect.Value{reflect.ValueOf(float32(1.5)), reflect.ValueOf(2.0), reflect.ValueOf(-0.25)}[rng.Intn(3)]
		case 3, 4:
			text = pick(rng, "ints", "ints|msg")
			n := 1 + rng.Intn(4)
			if rng.Intn(2) == 0 {
				s := make([]string, n, n+n%3)
				for j := range s {
					s[j] = pick(rng, digits(rng, 1+rng.Intn(3)), digits(rng, 2), "a", "1.5", "", " 1", "1 ", "18446744073709551616", digits(rng, 30))
				}
				v = reflect.ValueOf(s)
			} else {
				s := make([]uint32, n, n+n%3)
				for j := range s {
					s[j] = uint32(rng.Intn(100))
				}
				v = reflect.ValueOf(s)
			}
		default:
			text = pick(rng, "unique", "unique|唯一")
			n := 1 + rng.Intn(5)
			switch rng.Intn(4) {
			case 0:
				s := make([]string, n, n+n%3)
				for j := range s {
					s[j] = pick(rng, "a", "b", "c", "测", "", "a ")
				}
				v = reflect.ValueOf(s)
			case 1:
				s := make([]int, n, n+n%3)
				for j := range s {
					s[j] = rng.Intn(6) - 2
				}
				v = reflect.ValueOf(s)
			case 2:
				s := make([]float64, n, n+n%3)
				for j := range s {
					s[j] = []float64{0.5, 1, 1.5, 2, 0.1, 1e21}[rng.Intn(6)]
				}
				v = reflect.ValueOf(s)
			default:
				var a [3]uint8
				for j := range a {
					a[j] = uint8(rng.Intn(4))
				}
				v = reflect.ValueOf(a)
			}
		}
		// kinds the documentation lists explicitly: bool elements under unique, arrays under ints,
		// bool under in
		switch rng.Intn(12) {
		case 0:
			text = pick(rng, "unique", "unique|唯一")
			b := make([]bool, 1+rng.Intn(3))
			for j := range b {
				b[j] = rng.Intn(2) == 0
			}
			v = reflect.ValueOf(b)
		case 1:
			text = pick(rng, "ints", "ints|msg")
			v = reflect.ValueOf([2]string{pick(rng, "1", "12", "a", " 1"), pick(rng, "7", "x", "", "30")})
		case 2:
			text = pick(rng, "in=(true)", "in=(false/x)", "in=(1/true)")
			v = reflect.ValueOf(true)
		case 3:
			text = pick(rng, "unique", "ints")
			v = reflect.ValueOf([3]int{rng.Intn(3), rng.Intn(3), 7})
		case 4:
			// elements are compared one by one: a comma inside an element separates nothing
			text = pick(rng, "unique", "unique|msg")
			pool := [][]string{{"a,b", "b"}, {"1,2", "2,3"}, {"a,a"}, {","}, {"a,b", "a,b"}, {"a,b", "a", "b"}, {",", ",,"}, {"x,y", "y,x"}, {"a", "a,"}, {"1,1", "1"}}
			v = reflect.ValueOf(pool[rng.Intn(len(pool))])
		case 5:
			text = "unique"
			pool := [][2]string{{"a,b", "b"}, {"a,a", "a"}, {",", ""}, {"q,r", "q,r"}}
			v = reflect.ValueOf(pool[rng.Intn(len(pool))])
		}
		if v.IsZero() {
			continue
		}
		judge(text, v, "typed")
	}
}

// c05Class labels the shape of a disagreement for the signature.
func c05Class(key, text string, v reflect.Value) string {
	if v.Kind() != reflect.String {
		return v.Kind().String()
	}
	s := v.String()
	switch key {
	case "float":
		if i := strings.IndexFunc(s, func(r rune) bool { return r < '0' || r > '9' }); i > 0 && s[i] != '.' {
			return "non-dot-separator"
		}
	case "phone":
		if strings.Contains(s, ",") {
			return "comma-second-digit"
		}
	case "year", "year2month", "date", "datetime":
		return "string"
	}
	return "string"
}
