package props

import (
	"fmt"
	"math/rand"
	"reflect"
	"runtime"
	"strconv"
	"strings"
	"sync"
	"sync/atomic"
	"time"

	"gitee.com/xuesongtao/protoc-go-valid/valid"
	"vmon/internal/core"
	"vmon/internal/drive"
	"vmon/internal/gen"
)

// C11 — concurrent validations do not interfere.
//
// -race binary. G goroutines execute streams of heterogeneous calls on independent inputs (equal
// content, same struct types — the first calls stampede on a cold type cache); afterwards every
// call is executed once more, alone, and the concurrent result must equal the solo result. The
// race detector's log is parsed by the parent.

// yieldCache is installed through the public CacheEr interface: it yields between a Load miss and
// the following Store (the only window between two critical sections in the library) and counts
// double misses — two goroutines missing on the same key before either stored.
type yieldCache struct {
	inner    valid.CacheEr
	mu       sync.Mutex
	pending  map[interface{}]int
	dbl      int64
	miss     int64
	hit      int64
	store    int64
	yieldPct int
	ctr      uint64
}

func (y *yieldCache) Load(k interface{}) (interface{}, bool) {
	v, ok := y.inner.Load(k)
	if ok {
		atomic.AddInt64(&y.hit, 1)
		return v, true
	}
	atomic.AddInt64(&y.miss, 1)
	y.mu.Lock()
	if y.pending[k] > 0 {
		y.dbl++
	}
	y.pending[k]++
	y.mu.Unlock()
	if int(atomic.AddUint64(&y.ctr, 1)%100) < y.yieldPct {
		runtime.Gosched()
	}
	return nil, false
}

func (y *yieldCache) Store(k, v interface{}) {
	if int(atomic.AddUint64(&y.ctr, 1)%100) < y.yieldPct {
		runtime.Gosched()
	}
	y.inner.Store(k, v)
	atomic.AddInt64(&y.store, 1)
	y.mu.Lock()
	if y.pending[k] > 0 {
		y.pending[k]--
	}
	y.mu.Unlock()
}

func init() {
	core.Register(&core.Prop{
		ID: "C11",
		Rule: "2-32 goroutines each execute a stream of 300-3000 heterogeneous calls (Struct, ValidateStruct under three tag names, StructForFn, StructForFns with per-call functions, NestedStructForRule, either/botheq groups, Var, VarForFn, Map, MapFn, Url, GetOnlyExplainErr, GetDumpStructStr, one-off cold types) on independent inputs of shared and private struct types, released together on a cold type cache; process configurations: default cache, and NewLRU(2) behind a wrapper that yields between a Load miss and the following Store; GOMAXPROCS 2/4/16; plus 8 (thorough: 40) cold-start processes whose very first library calls are made by 8-32 goroutines at once. " +
			"Every call's concurrent result must equal its solo result (executed alone afterwards); any race-detector report with a library frame, panic, fatal error or hang inside the library is a violation. distinct = distinct (goroutine, call) executions with a non-nil result; non-trivial = call ran while >= 2 calls were in flight",
		Parent: parentC11,
		Run:    runC11,
		Timeout: func(t core.Tier) time.Duration {
			if t == core.Quick {
				return 5 * time.Minute
			}
			return 40 * time.Minute
		},
		Check: func(r *core.Result, t core.Tier) {
			if r.Counters["race_detector_active"] == 0 {
				r.Inconc("the monitor binary was not built with -race")
			}
			// double misses and cross-goroutine pool hand-overs are reported but not required: they
			// exist only while the implementation caches through CacheEr and pools its validators
			for k, min := range map[string]int64{"max_in_flight": 4, "calls_while_2plus_in_flight": 2000, "entry_kind_pairs_overlapping": 100, "stampede_bursts": 300} {
				if r.Counters[k] < min {
					r.Inconc(fmt.Sprintf("schedule-dependent minimum not reached: %s=%d (minimum %d)", k, r.Counters[k], min))
				}
			}
		},
	})
}

func parentC11(p *core.ParentCtx) *core.Result {
	specs := []core.ChildSpec{}
	type cfg struct{ cache, procs, g string }
	cfgs := []cfg{{"default", "16", "16"}, {"lru2yield", "16", "16"}, {"default", "4", "8"}, {"lru2yield", "2", "4"}, {"lru2yield", "4", "32"}, {"default", "2", "2"}}
	if p.Tier == core.Thorough {
		for _, g := range []string{"2", "4", "8", "16", "32"} {
			for _, pr := range []string{"2", "4", "16"} {
				for _, ca := range []string{"default", "lru2yield"} {
					cfgs = append(cfgs, cfg{ca, pr, g})
				}
			}
		}
	}
	for i, c := range cfgs {
		specs = append(specs, core.ChildSpec{Shard: i, Of: len(cfgs), Mode: "stream", Args: map[string]string{"cache": c.cache, "procs": c.procs, "g": c.g}})
	}
	// cold starts: fresh processes whose very first library calls are made by many goroutines at
	// once (whatever the library sets up lazily on first use is set up under contention)
	nCold := 8
	if p.Tier == core.Thorough {
		nCold = 40
	}
	for i := 0; i < nCold; i++ {
		specs = append(specs, core.ChildSpec{Shard: len(cfgs) + i, Of: len(cfgs) + nCold, Mode: "coldstart", Args: map[string]string{"cache": "default", "procs": []string{"16", "4", "2"}[i%3], "g": []string{"16", "32", "8"}[i%3], "first": []string{"struct", "mixed", "var-map-url"}[i%3]}})
	}
	// children one after the other in groups of 2: a child with GOMAXPROCS=16 should really get its cores
	outs := p.Spawn(specs, 2)
	for _, oc := range outs {
		if oc.Res != nil {
			p.Res.Merge(oc.Res)
		}
		p.AbsorbRaces(oc)
		p.Absorb(oc)
	}
	return p.Res
}

func runC11(c *core.Ctx) {
	res := c.Res
	if raceEnabled {
		res.Count("race_detector_active")
	}
	res.Assume("inputs of different goroutines are independent objects with equal content; struct types are shared")
	res.Assume("results are compared as sorted clause lists (order of group clauses and Go map entries is unspecified)")
	procs, _ := strconv.Atoi(c.Args["procs"])
	if procs > 0 {
		runtime.GOMAXPROCS(procs)
	}
	G, _ := strconv.Atoi(c.Args["g"])
	if G < 2 {
		G = 2
	}
	if c.Mode == "coldstart" {
		c11ColdStart(c, G)
		return
	}
	var yc *yieldCache
	if c.Args["cache"] == "lru2yield" {
		yc = &yieldCache{inner: valid.NewLRU(2), pending: map[interface{}]int{}, yieldPct: 60}
		valid.SetStructTypeCache(yc)
	}
	perG := c.Pick(600, 3000)
	if G >= 32 {
		perG = c.Pick(300, 1500)
	}
	// escalation by count: repeat the whole run (fresh specs) until the schedule-dependent minimums
	// of this child are met, at most 4 times
	for round := 0; round < 4; round++ {
		c11Round(c, G, perG, yc, round)
		if res.Counters["calls_while_2plus_in_flight"] >= int64(perG) && (yc == nil || yc.dbl >= 5) {
			break
		}
	}
	// global registration at a quiescent point (no goroutine of the workload is running), then the goroutines
	// again: whatever the earlier calls left behind (unknown rule names, refused inputs) must not stand in its way
	if !c11LateRegistration(c, "vmon_late_1") {
		return // every further library call would block behind the stuck registration
	}
	c11Bursts(c, G)
	if !c11LateRegistration(c, "vmon_late_2") {
		return
	}
	if out := normErr(drive.Call(func() error { return valid.Var("bad", "vmon_late_1", "vmon_late_2", "vmon_glob") })); strings.Count(out, "m_vmon_glob_") != 3 {
		res.Violate("C11|late-registration|not-effective", fmt.Sprintf("functions registered globally between two rounds of goroutines are not all resolved afterwards: %q", trunc(out, 300)), out)
	}
	if yc != nil {
		res.Count("double_misses", yc.dbl)
		res.Count("cache_misses", yc.miss)
		res.Count("cache_hits", yc.hit)
		res.Count("cache_stores", yc.store)
	}
}

// c11ColdStart: nothing of the library has run in this process yet. G goroutines make its first
// calls at the same instant (struct validations of named types under several tag names, or Var / Map
// / Url calls, or a mix); afterwards the same calls are made alone and must give the same results.
func c11ColdStart(c *core.Ctx, G int) {
	res := c.Res
	rng := rand.New(rand.NewSource(c.Seed*31 + int64(c.Shard)))
	type job struct {
		desc string
		run  func() string
	}
	mk := func(g int) job {
		kind := c.Args["first"]
		if kind == "mixed" {
			kind = []string{"struct", "var-map-url"}[g%2]
		}
		if kind == "struct" {
			t := namedTypesNoMap[rng.Intn(len(namedTypesNoMap))]
			tag := c08Tags[rng.Intn(len(c08Tags))]
			v := ptrTo(tunedFill(rng, t, tag, 0.15)).Interface()
			return job{"ValidateStruct(" + t.Name() + "," + tag + ")", func() string { return normErr(drive.Call(func() error { return valid.ValidateStruct(v, tag) })) }}
		}
		switch g % 3 {
		case 0:
			return job{"Var", func() string {
				return normErr(drive.Call(func() error { return valid.Var("abcdef", "to=1~3|m_v", "phone|m_p") }))
			}}
		case 1:
			return job{"Map", func() string {
				return normErr(drive.Call(func() error {
					return valid.Map(map[string]string{"a": "", "b": "xx"}, valid.RM{"a": "required|m_a", "b": "int|m_b"})
				}))
			}}
		}
		return job{"Url", func() string {
			return normErr(drive.Call(func() error {
				return valid.Url("http://h.example/p?a=&b=xx", valid.RM{"a": "required|m_a", "b": "int|m_b"})
			}))
		}}
	}
	jobs := make([]job, G)
	for g := range jobs {
		jobs[g] = mk(g)
	}
	out := make([]string, G)
	start := make(chan struct{})
	var wg sync.WaitGroup
	for g := 0; g < G; g++ {
		wg.Add(1)
		go func(g int) {
			defer wg.Done()
			<-start
			out[g] = jobs[g].run()
		}(g)
	}
	close(start)
	wg.Wait()
	res.Count("cold_start_processes")
	for g := 0; g < G; g++ {
		res.Eval()
		res.Count("cold_start_first_calls")
		solo := jobs[g].run()
		res.Distinct(fmt.Sprintf("cold|%d|%d|%s", c.Shard, g, jobs[g].desc))
		if out[g] != solo {
			res.Violate("C11|differs-from-solo|cold-start", fmt.Sprintf("first calls of a fresh process made by %d goroutines at once: %s returned %q, alone it returns %q", G, jobs[g].desc, trunc(out[g], 300), trunc(solo, 300)),
				map[string]interface{}{"call": jobs[g].desc, "concurrent": out[g], "solo": solo, "goroutines": G})
		}
	}
	if c.Shard%3 == 0 {
		res.Sample("cold-start", 1, map[string]interface{}{"goroutines": G, "first_calls": c.Args["first"], "example": jobs[0].desc, "result": trunc(out[0], 200)})
	}
}

// c11Bursts: all goroutines validate one brand-new struct type (24 fields, every field violated) at
// the same instant, again and again with fresh types — the first analysis of a type racing with
// lookups of the same type is the window in which a half-built cache entry could be observed.
func c11Bursts(c *core.Ctx, G int) {
	res := c.Res
	B := c.Pick(120, 1200)
	for b := 0; b < B; b++ {
		fields := make([]reflect.StructField, 24)
		for f := range fields {
			fields[f] = reflect.StructField{Name: fmt.Sprintf("F%d", f), Type: gen.TString, Tag: reflect.StructTag(fmt.Sprintf(`valid:"required|m_%d_%d_%d"`, c.Shard, b, f))}
		}
		inner := reflect.StructOf(fields[:12])
		fields[23] = reflect.StructField{Name: "In", Type: inner, Tag: `valid:"exist"`}
		fields[22] = reflect.StructField{Name: "L", Type: reflect.SliceOf(inner), Tag: `valid:"required|m_l"`}
		t := reflect.StructOf(fields)
		mk := func() interface{} {
			v := reflect.New(t)
			v.Elem().Field(22).Set(reflect.MakeSlice(reflect.SliceOf(inner), 2, 2))
			v.Elem().Field(23).Field(0).SetString("x") // non-zero, so that exist descends
			return v.Interface()
		}
		out := make([]string, G)
		start := make(chan struct{})
		var wg sync.WaitGroup
		for g := 0; g < G; g++ {
			wg.Add(1)
			in := mk()
			go func(g int) {
				defer wg.Done()
				<-start
				out[g] = normErr(drive.Call(func() error { return valid.Struct(in) }))
			}(g)
		}
		close(start)
		wg.Wait()
		solo := normErr(drive.Call(func() error { return valid.Struct(mk()) }))
		res.Count("stampede_bursts")
		for g := 0; g < G; g++ {
			res.Eval()
			if out[g] != solo {
				res.Violate("C11|differs-from-solo|first-use-stampede", fmt.Sprintf("burst %d: goroutine %d of %d validating a brand-new 24-field type returned %d clauses, alone it returns %d: %q vs %q", b, g, G, strings.Count(out[g], "; ")+1, strings.Count(solo, "; ")+1, trunc(out[g], 300), trunc(solo, 300)),
					map[string]interface{}{"concurrent": out[g], "solo": solo, "goroutines": G, "cache": c.Args["cache"], "procs": c.Args["procs"]})
			}
		}
	}
}

func c11Round(c *core.Ctx, G, perG int, yc *yieldCache, round int) {
	res := c.Res
	seedShared := c.Seed*1_000_003 + int64(c.Shard)*97 + int64(round)*13
	// every goroutine builds its own copy of the shared spec list (equal seeds => equal content,
	// independent objects, identical struct types) plus private specs
	nShared := perG * 2 / 3
	streams := make([][]callSpec, G)
	for g := 0; g < G; g++ {
		sg := newSpecGen(seedShared, 10)
		shared := sg.list(nShared)
		pg := newSpecGen(seedShared+int64(g+1)*7919, 3)
		private := pg.list(perG - nShared)
		for i := range private {
			private[i].ID += 1_000_000
		}
		all := append(shared, private...)
		// each goroutine walks the list in its own order
		rng := rand.New(rand.NewSource(seedShared + int64(g)))
		rng.Shuffle(len(all), func(i, j int) { all[i], all[j] = all[j], all[i] })
		// ... except that everybody starts with the same few hot calls (cold-cache stampede)
		streams[g] = append(append([]callSpec{}, shared[:5]...), all...)
	}
	kinds := map[string]int{}
	for i, k := range specKinds {
		kinds[k] = i
	}
	nk := len(specKinds)
	inFlightKind := make([]int32, nk)
	overlap := make([]int64, nk*nk)
	var inFlight, maxIn, while2 int64
	results := make([][]string, G)
	poolSeen := sync.Map{} // pointer text -> *sync.Map of goroutine ids
	start := make(chan struct{})
	var wg sync.WaitGroup
	for g := 0; g < G; g++ {
		wg.Add(1)
		go func(g int) {
			defer wg.Done()
			out := make([]string, len(streams[g]))
			<-start
			for i, s := range streams[g] {
				ki := kinds[s.Kind]
				n := atomic.AddInt64(&inFlight, 1)
				for {
					m := atomic.LoadInt64(&maxIn)
					if n <= m || atomic.CompareAndSwapInt64(&maxIn, m, n) {
						break
					}
				}
				if n >= 2 {
					atomic.AddInt64(&while2, 1)
				}
				atomic.AddInt32(&inFlightKind[ki], 1)
				for b := 0; b < nk; b++ {
					if atomic.LoadInt32(&inFlightKind[b]) > 0 && (b != ki || atomic.LoadInt32(&inFlightKind[b]) > 1) {
						atomic.AddInt64(&overlap[ki*nk+b], 1)
					}
				}
				out[i] = s.Run()
				atomic.AddInt32(&inFlightKind[ki], -1)
				atomic.AddInt64(&inFlight, -1)
				if i%40 == 7 {
					// sample the identity of a pooled validator object, then hand it back through a call
					vs := valid.NewVStruct()
					key := fmt.Sprintf("%p", vs)
					m, _ := poolSeen.LoadOrStore(key, &sync.Map{})
					m.(*sync.Map).Store(g, true)
					_ = vs.Valid(&struct{}{})
				}
			}
			results[g] = out
		}(g)
	}
	c.Journal("C11 round %d: releasing %d goroutines x %d calls (cache=%s procs=%s)", round, G, len(streams[0]), c.Args["cache"], c.Args["procs"])
	close(start)
	wg.Wait()
	res.Max("max_in_flight", maxIn)
	res.Count("calls_while_2plus_in_flight", while2)
	pairs := int64(0)
	for a := 0; a < nk; a++ {
		for b := 0; b < nk; b++ {
			if overlap[a*nk+b] > 0 {
				pairs++
			}
		}
	}
	res.Max("max_entry_kind_pairs_overlapping_in_one_run", pairs)
	res.Count("entry_kind_pairs_overlapping", pairs)
	poolSeen.Range(func(k, v interface{}) bool {
		n := 0
		v.(*sync.Map).Range(func(_, _ interface{}) bool { n++; return true })
		if n >= 2 {
			res.Count("pool_objects_seen_by_2plus_goroutines")
		}
		return true
	})
	// solo phase: every call again, alone
	for g := 0; g < G; g++ {
		for i, s := range streams[g] {
			solo := s.Run()
			res.Eval()
			if results[g][i] != "<nil>" && results[g][i] != "" {
				res.Distinct(fmt.Sprintf("%d|%d|%d|%d", c.Shard, round, g, s.ID))
			}
			if results[g][i] != solo {
				res.Violate("C11|differs-from-solo|"+s.Kind, fmt.Sprintf("goroutine %d of %d (cache=%s GOMAXPROCS=%s): %s returned %q concurrently but %q when run alone", g, G, c.Args["cache"], c.Args["procs"], trunc(s.Desc, 500), trunc(results[g][i], 500), trunc(solo, 500)),
					map[string]interface{}{"call": s.Desc, "concurrent": results[g][i], "solo": solo, "goroutines": G, "cache": c.Args["cache"], "procs": c.Args["procs"], "seed": c.Seed, "shard": c.Shard, "round": round})
			}
		}
	}
	if round == 0 {
		s := streams[0][len(streams[0])/2]
		res.Sample("run", 2, map[string]interface{}{"goroutines": G, "calls_per_goroutine": len(streams[0]), "cache": c.Args["cache"], "gomaxprocs": c.Args["procs"], "max_in_flight": maxIn, "kind_pairs_overlapping": pairs, "example_call": trunc(s.Desc, 300), "its_result": trunc(results[0][len(streams[0])/2], 300)})
	}
}

// c11LateRegistration registers a global function while no workload goroutine is running. The call is
// made on a goroutine of its own so that a registration that never returns is seen as what it is: after
// a generous wait the goroutine dump decides — blocked on a lock inside the library's registration is a
// violation (nothing else is running that could hold it legitimately), anything else is inconclusive.
func c11LateRegistration(c *core.Ctx, name string) bool {
	res := c.Res
	done := make(chan struct{})
	go func() {
		valid.SetCustomerValidFn(name, vmonGlobFn)
		close(done)
	}()
	res.Count("late_global_registrations")
	select {
	case <-done:
		return true
	case <-time.After(90 * time.Second):
	}
	buf := make([]byte, 1<<20)
	buf = buf[:runtime.Stack(buf, true)]
	for _, bl := range strings.Split(string(buf), "\n\n") {
		if strings.Contains(bl, "SetCustomerValidFn") && (strings.Contains(bl, "sync.(*RWMutex)") || strings.Contains(bl, "sync.(*Mutex)") || strings.Contains(bl, "[sync.")) {
			res.Violate("C11|hang|global-registration-at-quiescence", fmt.Sprintf("SetCustomerValidFn(%q), called while no other library call was running, is blocked on a lock for 90 s: %s", name, trunc(bl, 600)),
				map[string]interface{}{"goroutine": bl, "after": "a round of concurrent heterogeneous calls (incl. unknown rule names, refused inputs)"})
			return false
		}
	}
	res.Inconc("global registration did not return within 90 s and the goroutine dump does not show it blocked on a lock")
	return false
}
