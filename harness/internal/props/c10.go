package props

import (
	"fmt"
	"hash/fnv"
	"math/rand"
	"runtime"
	"sort"
	"strconv"
	"strings"
	"sync"
	"sync/atomic"
	"time"

	"gitee.com/xuesongtao/protoc-go-valid/valid"
	"github.com/anishathalye/porcupine"
	"vmon/internal/core"
	"vmon/internal/ref"
)

// C10 — the LRU cache is safe and linearizable under concurrent use.
// Three monitors over the same runs (binary built with -race):
//   1. the Go race detector (reports parsed from its log by the parent);
//   2. porcupine on many small recorded histories against the sequential LRU model;
//   3. quiescent invariants and callback conservation on large runs.

type lruIn struct {
	Op  byte // S L D N P(dump)
	Key int
	Val int
}

type lruOut struct {
	Val  int
	Ok   bool
	Len  int
	Dump string
}

func (i lruIn) String() string {
	switch i.Op {
	case 'S':
		return fmt.Sprintf("Store(%d,%d)", i.Key, i.Val)
	case 'L':
		return fmt.Sprintf("Load(%d)", i.Key)
	case 'D':
		return fmt.Sprintf("Delete(%d)", i.Key)
	case 'N':
		return "Len()"
	}
	return "Dump()"
}

type lruState struct {
	cap int
	es  []ref.LRUEntry
}

func lruModel(capacity int) porcupine.Model {
	return porcupine.Model{
		Init: func() interface{} { return lruState{cap: capacity} },
		Step: func(st, in, out interface{}) (bool, interface{}) {
			s := st.(lruState)
			i := in.(lruIn)
			o := out.(lruOut)
			m := &ref.LRU{Cap: s.cap, Entries: append([]ref.LRUEntry(nil), s.es...)}
			switch i.Op {
			case 'S':
				m.Store(i.Key, i.Val)
				return true, lruState{s.cap, m.Entries}
			case 'L':
				v, ok := m.Load(i.Key)
				if ok != o.Ok || (ok && v.(int) != o.Val) {
					return false, st
				}
				return true, lruState{s.cap, m.Entries}
			case 'D':
				m.Delete(i.Key)
				return true, lruState{s.cap, m.Entries}
			case 'N':
				return m.Len() == o.Len, st
			default:
				return !dumpUsable() || m.Dump() == o.Dump, st
			}
		},
		Equal: func(a, b interface{}) bool {
			x, y := a.(lruState), b.(lruState)
			if len(x.es) != len(y.es) {
				return false
			}
			for i := range x.es {
				if x.es[i] != y.es[i] {
					return false
				}
			}
			return true
		},
		DescribeOperation: func(in, out interface{}) string {
			i, o := in.(lruIn), out.(lruOut)
			switch i.Op {
			case 'L':
				return fmt.Sprintf("%s -> %d,%v", i, o.Val, o.Ok)
			case 'N':
				return fmt.Sprintf("Len() -> %d", o.Len)
			case 'P':
				return fmt.Sprintf("Dump() -> %q", o.Dump)
			}
			return i.String()
		},
	}
}

func applyLRU(c *valid.LRUCache, in lruIn) (out lruOut, pan interface{}) {
	defer func() {
		if r := recover(); r != nil {
			pan = r
		}
	}()
	switch in.Op {
	case 'S':
		c.Store(in.Key, in.Val)
	case 'L':
		v, ok := c.Load(in.Key)
		out.Ok = ok
		if ok {
			out.Val, _ = v.(int)
		}
	case 'D':
		c.Delete(in.Key)
	case 'N':
		out.Len = c.Len()
	case 'P':
		out.Dump = normDump(c.Dump())
	}
	return
}

func init() {
	core.Register(&core.Prop{
		ID: "C10",
		Rule: "[plus a sequential, format-agnostic Dump probe once per process: the text names every live entry by key or value and no removed value] small histories: 2-4 goroutines x 3-6 operations (Store/Load/Delete/Len/Dump) over <=3 keys on capacities 0..2, recorded at the client boundary with call/return stamps from one atomic counter and checked with porcupine against the sequential LRU model (no per-key partitioning: eviction couples keys); " +
			"large runs: 2-16 goroutines x 10^4-10^5 operations on capacities 0..8 and 64, checked at quiescence for Len<=cap, Len==#hitting keys, Dump line count, and callback conservation (unique-store workload: stored = live + removed exactly once); all under the Go race detector. " +
			"distinct = distinct interleaving fingerprint (hash of the call/return event order with operation kinds) of a small history, plus one per large run; non-trivial = at least two operations of different goroutines overlap in time",
		Run:    runC10,
		Parent: parentC10,
		Timeout: func(t core.Tier) time.Duration {
			if t == core.Quick {
				return 150 * time.Second
			}
			return 40 * time.Minute
		},
		Check: func(r *core.Result, t core.Tier) {
			if r.Counters["small_histories_overlapping"] < 1500 {
				r.Inconc(fmt.Sprintf("too few overlapping histories: %d of %d", r.Counters["small_histories_overlapping"], r.Counters["small_histories"]))
			}
			if int64(r.DistinctLen()) < 1000 {
				r.Inconc(fmt.Sprintf("fewer than 1000 distinct interleavings observed: %d", r.DistinctLen()))
			}
			ops := "SLDNP"
			for i := 0; i < len(ops); i++ {
				for j := i; j < len(ops); j++ {
					if r.Counters[fmt.Sprintf("overlap|%c%c", ops[i], ops[j])] == 0 {
						r.Inconc(fmt.Sprintf("operation pair never observed overlapping: %c/%c", ops[i], ops[j]))
					}
				}
			}
			if r.Counters["large_runs"] == 0 {
				r.Inconc("no large run completed")
			}
			if r.Counters["race_detector_active"] == 0 {
				r.Inconc("binary was not built with the race detector")
			}
		},
	})
}

func parentC10(p *core.ParentCtx) *core.Result {
	specs := []core.ChildSpec{}
	nSmall := 8
	for i := 0; i < nSmall; i++ {
		specs = append(specs, core.ChildSpec{Shard: i, Of: nSmall, Mode: "small", Args: map[string]string{"procs": []string{"4", "16", "2", "8"}[i%4]}})
	}
	nLarge := 8
	procs := []string{"16", "4", "2"}
	for i := 0; i < nLarge; i++ {
		specs = append(specs, core.ChildSpec{Shard: i, Of: nLarge, Mode: "large", Args: map[string]string{"procs": procs[i%3]}})
	}
	// the small-history children run first and not oversubscribed, so that goroutines of one history
	// really run in parallel; the large runs follow
	outs := p.Spawn(specs[:nSmall], 4)
	outs = append(outs, p.Spawn(specs[nSmall:], 8)...)
	for _, oc := range outs {
		if oc.Res != nil {
			p.Res.Merge(oc.Res)
		}
		p.AbsorbRaces(oc)
		p.Absorb(oc)
	}
	return p.Res
}

func runC10(c *core.Ctx) {
	if n, err := strconv.Atoi(c.Args["procs"]); err == nil && n > 0 {
		runtime.GOMAXPROCS(n)
	}
	if raceEnabled {
		c.Res.Count("race_detector_active")
	}
	c.Res.Assume("operations are recorded at the client boundary; logical time is one process-wide atomic counter")
	c.Res.Assume("the removal callback is not part of the linearizability model; it is checked by conservation on the large runs")
	c10DumpProbe(c.Res)
	switch c.Mode {
	case "small":
		c10Small(c)
	case "large":
		c10Large(c)
	}
}

// c10DumpProbe: whatever the FORMAT of Dump is (it is compared exactly only while it has the shape the harness
// understands), a dump is a function of the content: with distinctive keys and values, the text names every live entry
// (by its key or by its value) and no value that was overwritten, deleted or evicted. A sequential probe, once per process.
func c10DumpProbe(res *core.Result) {
	defer func() {
		if r := recover(); r != nil {
			res.Violate("C10|dump-panics|sequential", fmt.Sprintf("Dump() on a four-entry cache panicked: %v", r), nil)
		}
	}()
	l := valid.NewLRU(4)
	tok := func(i int) (string, string) { return fmt.Sprintf("key-%d-qzk", i), fmt.Sprintf("val-%d-jxv", i) }
	live := map[int]string{} // key number -> current value
	dead := []string{}
	check := func(step string) {
		d := l.Dump()
		res.Count("dump_content_probes")
		for i, v := range live {
			k, _ := tok(i)
			if !strings.Contains(d, k) && !strings.Contains(d, v) {
				res.Violate("C10|dump-omits-live-entry|sequential", fmt.Sprintf("%s: Dump() = %q names neither key %q nor value %q of a live entry (Load hits it)", step, trunc(d, 300), k, v), nil)
				return
			}
		}
		for _, v := range dead {
			if strings.Contains(d, v) {
				res.Violate("C10|dump-shows-removed-value|sequential", fmt.Sprintf("%s: Dump() = %q still shows %q, a value that was deleted, evicted or overwritten", step, trunc(d, 300), v), nil)
				return
			}
		}
	}
	for i := 1; i <= 4; i++ {
		k, v := tok(i)
		l.Store(k, v)
		live[i] = v
		check(fmt.Sprintf("after %d stores", i))
	}
	k2, v2 := tok(2)
	l.Delete(k2)
	delete(live, 2)
	dead = append(dead, v2)
	check("after Delete of the second key")
	for i := 5; i <= 7; i++ { // 5 fills the cache again, 6 and 7 evict the two least recently used entries (1 and 3)
		k, v := tok(i)
		l.Store(k, v)
		live[i] = v
	}
	for _, i := range []int{1, 3} {
		k, v := tok(i)
		if _, ok := l.Load(k); !ok {
			delete(live, i)
			dead = append(dead, v)
		}
	}
	check("after two evictions")
	k4, v4 := tok(4)
	l.Store(k4, "val-44-jxv")
	live[4] = "val-44-jxv"
	dead = append(dead, v4)
	check("after overwriting a value")
}

func c10Small(c *core.Ctx) {
	res := c.Res
	rng := c.Rng("small")
	N := c.Pick(1500, 12500) // per shard
	kinds := []byte{'S', 'S', 'S', 'L', 'L', 'D', 'N', 'P'}
	// escalation by count (never by time): keep recording histories until N/2 of them had truly
	// overlapping operations, at most 8N histories
	overlapping := 0
	for h := 0; h < 8*N && (h < N || overlapping < N/2); h++ {
		capacity := rng.Intn(3)
		G := 2 + rng.Intn(3)
		nops := 3 + rng.Intn(4)
		if G*nops > 18 {
			nops = 18 / G
		}
		plan := make([][]lruIn, G)
		val := 0
		for g := range plan {
			plan[g] = make([]lruIn, nops)
			for i := range plan[g] {
				k := kinds[rng.Intn(len(kinds))]
				val++
				plan[g][i] = lruIn{Op: k, Key: rng.Intn(3), Val: 100 + val}
			}
		}
		yield := make([][]bool, G)
		for g := range yield {
			yield[g] = make([]bool, nops)
			for i := range yield[g] {
				yield[g][i] = rng.Intn(3) == 0
			}
		}
		c.Journal("small history %d cap=%d plan=%v", h, capacity, plan)
		cache := valid.NewLRU(capacity)
		var clock int64
		hist := make([][]porcupine.Operation, G)
		var pans []string
		var pmu sync.Mutex
		var wg sync.WaitGroup
		var ready int64
		for g := 0; g < G; g++ {
			wg.Add(1)
			go func(g int) {
				defer wg.Done()
				// spin barrier: the operations are far shorter than a goroutine wake-up
				atomic.AddInt64(&ready, 1)
				for atomic.LoadInt64(&ready) < int64(G) {
					runtime.Gosched()
				}
				for i, in := range plan[g] {
					if yield[g][i] {
						runtime.Gosched()
					}
					call := atomic.AddInt64(&clock, 1)
					out, pan := applyLRU(cache, in)
					ret := atomic.AddInt64(&clock, 1)
					if pan != nil {
						pmu.Lock()
						pans = append(pans, fmt.Sprintf("%s: %v", in, pan))
						pmu.Unlock()
					}
					hist[g] = append(hist[g], porcupine.Operation{ClientId: g, Input: in, Call: call, Output: out, Return: ret})
				}
			}(g)
		}
		wg.Wait()
		res.Eval()
		res.Count("small_histories")
		var ops []porcupine.Operation
		for g := range hist {
			ops = append(ops, hist[g]...)
		}
		res.Count("small_history_ops", int64(len(ops)))
		if len(pans) > 0 {
			res.Violate("C10|panic|small", fmt.Sprintf("panic in concurrent cache operation: %v", pans), map[string]interface{}{"cap": capacity, "plan": fmt.Sprint(plan)})
			continue
		}
		// overlap statistics and interleaving fingerprint
		overl := false
		for a := 0; a < len(ops); a++ {
			for b := a + 1; b < len(ops); b++ {
				if ops[a].ClientId != ops[b].ClientId && ops[a].Call < ops[b].Return && ops[b].Call < ops[a].Return {
					overl = true
					x, y := ops[a].Input.(lruIn).Op, ops[b].Input.(lruIn).Op
					if strings.IndexByte("SLDNP", x) > strings.IndexByte("SLDNP", y) {
						x, y = y, x
					}
					res.Count(fmt.Sprintf("overlap|%c%c", x, y))
				}
			}
		}
		if overl {
			res.Count("small_histories_overlapping")
			overlapping++
			type ev struct {
				t int64
				s string
			}
			evs := []ev{}
			for _, o := range ops {
				evs = append(evs, ev{o.Call, fmt.Sprintf("c%d%c", o.ClientId, o.Input.(lruIn).Op)}, ev{o.Return, fmt.Sprintf("r%d", o.ClientId)})
			}
			sort.Slice(evs, func(i, j int) bool { return evs[i].t < evs[j].t })
			fh := fnv.New64a()
			for _, e := range evs {
				fh.Write([]byte(e.s))
			}
			res.DistinctHash(fh.Sum64())
		}
		r, info := porcupine.CheckOperationsVerbose(lruModel(capacity), ops, 10*time.Second)
		switch r {
		case porcupine.Ok:
			res.Count("small_histories_linearizable")
		case porcupine.Unknown:
			res.Inconc("porcupine timed out on a small history")
		case porcupine.Illegal:
			_ = info
			desc := []string{}
			sort.Slice(ops, func(i, j int) bool { return ops[i].Call < ops[j].Call })
			m := lruModel(capacity)
			kindsSeen := map[byte]bool{}
			for _, o := range ops {
				desc = append(desc, fmt.Sprintf("g%d[%d,%d] %s", o.ClientId, o.Call, o.Return, m.DescribeOperation(o.Input, o.Output)))
				kindsSeen[o.Input.(lruIn).Op] = true
			}
			cls := "nodump"
			if kindsSeen['P'] {
				cls = "withdump"
			}
			res.Violate("C10|not-linearizable|"+cls, fmt.Sprintf("capacity %d: history has no legal linearization: %v", capacity, desc), map[string]interface{}{"cap": capacity, "history": desc})
		}
		if h < 2 && c.Shard == 0 {
			desc := []string{}
			m := lruModel(capacity)
			for _, o := range ops {
				desc = append(desc, fmt.Sprintf("g%d[%d,%d] %s", o.ClientId, o.Call, o.Return, m.DescribeOperation(o.Input, o.Output)))
			}
			res.Sample("small-history", 2, map[string]interface{}{"cap": capacity, "ops": desc})
		}
	}
}

type cbRec struct {
	k, v int
}

func c10Large(c *core.Ctx) {
	res := c.Res
	rng := c.Rng("large")
	runs := c.Pick(5, 40) // per shard
	for r := 0; r < runs; r++ {
		capacity := []int{0, 1, 2, 3, 4, 5, 6, 7, 8, 64}[rng.Intn(10)]
		G := []int{2, 3, 4, 8, 16}[rng.Intn(5)]
		nops := c.Pick(8000, 40000)
		unique := r%2 == 0
		c.Journal("large run %d cap=%d G=%d nops=%d unique=%v", r, capacity, G, nops, unique)
		cache := valid.NewLRU(capacity)
		var cbMu sync.Mutex
		var cbs []cbRec
		cache.SetDelCallBackFn(func(k, v interface{}) {
			cbMu.Lock()
			cbs = append(cbs, cbRec{k.(int), v.(int)})
			cbMu.Unlock()
		})
		stored := make([]map[int][]int, G) // per goroutine: key -> values stored (in order)
		seeds := make([]int64, G)
		for g := range seeds {
			seeds[g] = rng.Int63()
			stored[g] = map[int][]int{}
		}
		keySpace := capacity*2 + 3
		var badLen, badDump int64
		var pans []string
		var pmu sync.Mutex
		var start, wg sync.WaitGroup
		start.Add(1)
		var next int64
		for g := 0; g < G; g++ {
			wg.Add(1)
			go func(g int) {
				defer wg.Done()
				defer func() {
					if rr := recover(); rr != nil {
						pmu.Lock()
						pans = append(pans, fmt.Sprint(rr))
						pmu.Unlock()
					}
				}()
				lr := rand.New(rand.NewSource(seeds[g]))
				start.Wait()
				for i := 0; i < nops; i++ {
					x := lr.Intn(20)
					var key int
					if unique {
						key = int(atomic.LoadInt64(&next)) - lr.Intn(keySpace+1)
					} else {
						key = lr.Intn(keySpace)
					}
					switch {
					case x < 8:
						v := int(atomic.AddInt64(&next, 1))
						if unique {
							key = v
						}
						stored[g][key] = append(stored[g][key], v)
						cache.Store(key, v)
					case x < 14:
						cache.Load(key)
					case x < 16:
						cache.Delete(key)
					case x < 18:
						if l := cache.Len(); l < 0 || l > capacity {
							atomic.AddInt64(&badLen, 1)
						}
					default:
						if lines := dumpLines(cache.Dump()); dumpUsable() && lines > capacity {
							atomic.AddInt64(&badDump, 1)
						}
					}
					if lr.Intn(64) == 0 {
						runtime.Gosched()
					}
				}
			}(g)
		}
		start.Done()
		wg.Wait()
		res.Eval()
		res.Count("large_runs")
		res.Count("large_ops", int64(G*nops))
		res.Distinct(fmt.Sprintf("large|%d|%d|%d|%d|%d|%v", c.Seed, c.Shard, r, capacity, G, unique))
		wit := map[string]interface{}{"cap": capacity, "goroutines": G, "ops_per_goroutine": nops, "unique_store": unique, "seed": c.Seed, "shard": c.Shard, "run": r}
		if len(pans) > 0 {
			res.Violate("C10|panic|large", fmt.Sprintf("panic in concurrent cache operation: %v", pans), wit)
			continue
		}
		if badLen > 0 {
			res.Violate("C10|len-out-of-range|concurrent", fmt.Sprintf("Len() returned a value outside [0,%d] %d times during the run", capacity, badLen), wit)
		}
		if badDump > 0 {
			res.Violate("C10|dump-more-than-cap|concurrent", fmt.Sprintf("Dump() listed more than %d entries %d times during the run", capacity, badDump), wit)
		}
		// ---- quiescence
		all := map[int][]int{}
		for g := range stored {
			for k, vs := range stored[g] {
				all[k] = append(all[k], vs...)
			}
		}
		l := cache.Len()
		if l < 0 || l > capacity {
			res.Violate("C10|len-out-of-range|quiescent", fmt.Sprintf("at quiescence Len()=%d with capacity %d", l, capacity), wit)
		}
		d := cache.Dump()
		lines := dumpLines(d)
		if dumpUsable() && lines != l {
			res.Violate("C10|dump-vs-len|quiescent", fmt.Sprintf("at quiescence Dump lists %d entries, Len()=%d", lines, l), wit)
		}
		removed := map[int]int{}
		cbMu.Lock()
		cbCopy := append([]cbRec(nil), cbs...)
		cbMu.Unlock()
		for _, cb := range cbCopy {
			removed[cb.k]++
			ok := false
			for _, v := range all[cb.k] {
				if v == cb.v {
					ok = true
				}
			}
			if !ok {
				res.Violate("C10|callback-unknown-pair|quiescent", fmt.Sprintf("callback fired with (%d,%d) which was never stored", cb.k, cb.v), wit)
				break
			}
		}
		res.Count("callbacks_observed", int64(len(cbCopy)))
		live := 0
		liveKeys := map[int]bool{}
		for k := range all {
			if v, ok := cache.Load(k); ok {
				live++
				liveKeys[k] = true
				found := false
				for _, sv := range all[k] {
					if sv == v.(int) {
						found = true
					}
				}
				if !found {
					res.Violate("C10|load-unknown-value|quiescent", fmt.Sprintf("Load(%d) returned %v which was never stored under that key", k, v), wit)
				}
			}
		}
		if live != l {
			res.Violate("C10|len-vs-hits|quiescent", fmt.Sprintf("at quiescence Len()=%d but %d stored keys hit", l, live), wit)
		}
		for k, n := range removed {
			if n > len(all[k]) {
				res.Violate("C10|callback-more-than-stores|quiescent", fmt.Sprintf("key %d: %d callbacks but %d stores", k, n, len(all[k])), wit)
				break
			}
		}
		if unique {
			// every key stored exactly once: stored = live (+) removed, removed exactly once
			bad := ""
			for k := range all {
				n := removed[k]
				switch {
				case liveKeys[k] && n != 0:
					bad = fmt.Sprintf("key %d is live and has %d removal callbacks", k, n)
				case !liveKeys[k] && n != 1:
					bad = fmt.Sprintf("key %d is gone but has %d removal callbacks (want exactly 1)", k, n)
				}
				if bad != "" {
					break
				}
			}
			if bad != "" {
				res.Violate("C10|conservation|quiescent", "unique-store workload: "+bad, wit)
			}
			res.Count("conservation_checked_keys", int64(len(all)))
		}
		if r == 0 {
			res.Sample("large-run", 1, wit)
		}
	}
}
