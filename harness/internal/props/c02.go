package props

import (
	"fmt"
	"math/rand"
	"net/url"
	"reflect"
	"strings"

	"gitee.com/xuesongtao/protoc-go-valid/valid"
	"vmon/internal/core"
	"vmon/internal/drive"
	"vmon/internal/gen"
	"vmon/internal/ref"
)

// C02 — every violated rule is reported exactly once, in order; nil iff none.

func c02TypeOpts(plan tagPlan) gen.TypeOpts {
	return gen.TypeOpts{MaxFields: 6, MaxDepth: 2, Leaf: vLeafTypes, Unexported: true, Ptr: true, PtrPtr: true, Slices: true, Arrays: true, Maps: true, Tag: plan.ruleTag, Time: true}
}

func noteExps(res *core.Result, exps []ref.Exp) {
	for _, x := range exps {
		if x.Kind == "input" && len(x.Order) > 0 && x.Order[len(x.Order)-1].N > 0 {
			res.Count("nonfirst_fail|" + x.Rule)
		}
		if x.Kind == "input" {
			res.Count("fail|" + x.Rule)
		}
		if x.Kind == "group" {
			res.Count("group_clauses_expected")
		}
		if x.Kind == "config" {
			res.Count("config_clauses_expected")
		}
		if len(x.Order) >= 6 {
			res.Count("clauses_depth3plus_expected")
		}
	}
}

var c02Keys = []string{"required", "to", "ge", "le", "oto", "gt", "lt", "eq", "noeq", "in", "include", "prefix", "suffix", "phone", "email", "idcard", "ip", "ipv4", "ipv6", "year", "year2month", "date", "datetime", "int", "ints", "float", "re", "unique", "json"}

func init() {
	core.Register(&core.Prop{
		ID: "C02",
		Rule: "struct types synthesised with reflect.StructOf (1-6 fields, nesting depth<=2 through values, pointers, pointer-to-pointer, slices, arrays and maps, unexported fields), per field 0-5 rules drawn from all rule keys valid for the field kind with unique custom messages (2/3) or default wording (1/3), repeated rules, empty items, leading/trailing commas, unknown rule names and either/botheq groups; values tuned to bound-1/bound/bound+1 of the rules so that each rule fails about half the time; through Struct, ValidateStruct, StructForFn (rule override), top-level slices/arrays/maps, Var, Map and Url. " +
			"The parsed clause sequence must equal the reference validator's (paths, echo of scalars, order; Go map entries and group clauses as multisets), nil iff no clause. distinct = distinct (type, value, rules) rendering; non-trivial = at least one clause expected",
		Shards: func(t core.Tier) int { return 16 },
		Run:    runC02,
		Check: func(r *core.Result, t core.Tier) {
			if r.Evaluations == 0 || r.Counters["calls_with_3plus_clauses"]*100/r.Evaluations < 20 {
				r.Inconc(fmt.Sprintf("too few calls with >=3 simultaneous clauses: %d of %d", r.Counters["calls_with_3plus_clauses"], r.Evaluations))
			}
			for _, k := range c02Keys {
				if r.Counters["nonfirst_fail|"+k] == 0 {
					r.Inconc("rule never observed failing in a non-first position: " + k)
				}
			}
			for _, e := range []string{"Struct", "ValidateStruct", "StructForFn", "top-slice", "top-map", "Var", "Map", "Url"} {
				if r.Counters["entry|"+e] < 50 {
					r.Inconc("entry point under-exercised: " + e)
				}
			}
		},
	})
}

func runC02(c *core.Ctx) {
	res := c.Res
	res.Assume("generated values and messages never contain the clause separator or an explanation label, so the clause split is unambiguous")
	res.Assume("rules whose verdict the documentation leaves open for a value (three-valued recognisers) make the whole case skipped and counted")
	res.Assume("the echoed input is checked for scalar values except under json (escaped / truncated echo) and float32")
	rng := c.Rng("c02")
	seq := 0
	plan := tagPlan{TagNames: []string{"valid"}, Style: gen.MsgMixed, MaxRules: 5, Unknown: true, Groups: true, seq: &seq}
	to := c02TypeOpts(plan)
	N := c.Pick(1500, 40000)
	for i := 0; i < N; i++ {
		t := gen.RandStruct(rng, to)
		if i%3 == 2 && len(namedTypesAll) > 0 {
			t = namedTypesAll[rng.Intn(len(namedTypesAll))]
			res.Count("named_type_cases")
		}
		for j := 0; j < 3; j++ {
			v := tunedFill(rng, t, "valid", 0.15)
			c02StructCase(res, rng, t, v, i*3+j)
		}
	}
	M := c.Pick(4000, 100000)
	for i := 0; i < M; i++ {
		c02FlatCase(res, rng, i)
	}
}

func ptrTo(v reflect.Value) reflect.Value {
	p := reflect.New(v.Type())
	p.Elem().Set(v)
	return p
}

func c02StructCase(res *core.Result, rng *rand.Rand, t reflect.Type, v reflect.Value, idx int) {
	env := &ref.Env{Tag: "valid"}
	var in interface{}
	entry := ""
	var call func() error
	switch rng.Intn(8) {
	case 0:
		entry, in = "Struct", v.Interface()
		call = func() error { return valid.Struct(in) }
	case 1:
		entry, in = "Struct", ptrTo(v).Interface()
		call = func() error { return valid.Struct(in) }
	case 2:
		entry, in = "ValidateStruct", ptrTo(ptrTo(v)).Interface()
		tag := "valid"
		if t.Name() != "" && rng.Intn(2) == 0 {
			tag = []string{"a", "b"}[rng.Intn(2)] // the generated named types carry independent rule sets under a and b
			env.Tag = tag
			res.Count("validatestruct_other_tag")
		}
		call = func() error { return valid.ValidateStruct(in, tag) }
	case 3, 4:
		// rule override for some outermost fields
		entry, in = "StructForFn", ptrTo(v).Interface()
		rm := valid.RM{}
		env.Unscoped = map[string]string{}
		for f := 0; f < t.NumField(); f++ {
			sf := t.Field(f)
			if sf.PkgPath == "" && !structish(sf.Type) && rng.Intn(2) == 0 {
				r := gen.RuleList(rng, sf.Type, 3, fmt.Sprintf("o%d", f), gen.MsgUnique, false)
				if rng.Intn(3) == 0 {
					if pr := gen.PerturbRules(rng, sf.Tag.Get("valid"), sf.Type, fmt.Sprintf("o%d", f)); pr != "" {
						r = pr
					}
				}
				rm[sf.Name] = r
				env.Unscoped[sf.Name] = r
			}
		}
		shareTail(rng, env.Unscoped, fmt.Sprintf("sh_o%d", idx))
		rm = toRM(env.Unscoped)
		call = func() error { return valid.StructForFn(in, rm, "valid") }
	case 5:
		entry = "top-slice"
		t = reflect.TypeOf(NT1{}) // the element type's name is part of the path: anonymous types would put "; " into it
		n := rng.Intn(4)
		if rng.Intn(2) == 0 {
			s := reflect.MakeSlice(reflect.SliceOf(t), 0, n)
			for k := 0; k < n; k++ {
				s = reflect.Append(s, tunedFill(rng, t, "valid", 0.15))
			}
			in = s.Interface()
		} else {
			s := reflect.MakeSlice(reflect.SliceOf(reflect.PointerTo(t)), 0, n)
			for k := 0; k < n; k++ {
				if rng.Intn(5) == 0 {
					s = reflect.Append(s, reflect.Zero(reflect.PointerTo(t)))
				} else {
					s = reflect.Append(s, ptrTo(tunedFill(rng, t, "valid", 0.15)))
				}
			}
			in = s.Interface()
		}
		call = func() error { return valid.Struct(in) }
	case 6:
		entry = "top-slice"
		t = reflect.TypeOf(NT1{})
		a := reflect.New(reflect.ArrayOf(2, t)).Elem()
		a.Index(0).Set(tunedFill(rng, t, "valid", 0.15))
		a.Index(1).Set(tunedFill(rng, t, "valid", 0.15))
		in = a.Interface()
		call = func() error { return valid.Struct(in) }
	default:
		entry = "top-map"
		if rng.Intn(2) == 0 {
			m := reflect.MakeMap(reflect.MapOf(gen.TString, t))
			for k := 0; k < 1+rng.Intn(3); k++ {
				m.SetMapIndex(reflect.ValueOf(fmt.Sprintf("k%d", k)), tunedFill(rng, t, "valid", 0.15))
			}
			in = m.Interface()
		} else {
			m := reflect.MakeMap(reflect.MapOf(gen.TInt, reflect.PointerTo(t)))
			for k := 0; k < 1+rng.Intn(3); k++ {
				m.SetMapIndex(reflect.ValueOf(k*7-3), ptrTo(tunedFill(rng, t, "valid", 0.15)))
			}
			in = m.Interface()
		}
		call = func() error { return valid.Struct(in) }
	}
	exps, entryErr := env.ExpectStruct(in)
	out := drive.Call(call)
	res.Count("entry|" + entry)
	wit := vWitness{Entry: entry, Type: trunc(t.String(), 1500), Value: describeValue(reflect.ValueOf(in)), Rules: env.Unscoped}
	judged, ok := compareCall(res, "C02|"+entry, "", out, exps, entryErr, env, true, wit)
	if judged {
		noteExps(res, exps)
		if len(exps) > 0 {
			res.Distinct(t.String() + "|" + wit.Value + "|" + fmt.Sprint(env.Unscoped))
		}
		if ok && idx < 3 && len(exps) >= 2 {
			res.Sample("struct", 2, map[string]interface{}{"entry": entry, "type": trunc(t.String(), 400), "value": trunc(wit.Value, 200), "library_returned": trunc(out.String(), 400)})
		}
	}
}

var flatScalarTypes = []reflect.Type{gen.TString, gen.TString, gen.TInt, gen.TInt8, gen.TInt64, gen.TUint8, gen.TUint32, gen.TFloat64, gen.TFloat32, gen.TGInt, gen.TGStr, gen.TGUint}

func c02FlatCase(res *core.Result, rng *rand.Rand, idx int) {
	env := &ref.Env{}
	usedExist := false
	switch rng.Intn(3) {
	case 0: // Var
		t := append(append([]reflect.Type{}, flatScalarTypes...), reflect.TypeOf([]int(nil)), reflect.TypeOf([]string(nil)))[rng.Intn(len(flatScalarTypes)+2)]
		rules := gen.RuleList(rng, t, 5, "v", gen.MsgMixed, true)
		if rng.Intn(8) == 0 {
			rules = strings.Trim(rules+","+[]string{"exist", "either=1", "botheq=2"}[rng.Intn(3)], ",")
		}
		v := gen.TunedLeaf(rng, t, rules, 0.1)
		if rules == "" || strings.Trim(rules, ",") == "" {
			return
		}
		exps := env.ExpectVar(v, rules)
		// Var takes the rules as separate arguments joined by commas
		out := drive.Call(func() error { return valid.Var(v.Interface(), rules) })
		res.Count("entry|Var")
		wit := vWitness{Entry: "Var", Type: t.String(), Value: valStr(v), Rules: rules}
		if judged, _ := compareCall(res, "C02|Var", "", out, exps, false, env, true, wit); judged {
			noteExps(res, exps)
			if len(exps) > 0 {
				res.Distinct("var|" + t.String() + "|" + wit.Value + "|" + rules)
			}
		}
	case 1: // Map
		t := flatScalarTypes[rng.Intn(len(flatScalarTypes))]
		n := 1 + rng.Intn(4)
		rules := map[string]string{}
		rm := valid.RM{}
		m := reflect.MakeMap(reflect.MapOf(gen.TString, t))
		entries := []ref.FlatEntry{}
		for k := 0; k < n; k++ {
			key := fmt.Sprintf("k%d", k)
			r := gen.RuleList(rng, t, 4, key, gen.MsgMixed, true)
			if rng.Intn(8) == 0 && !usedExist { // a rule the map validator does not support: one clause, the others still run
				// (the clause carries no path, so only one per case: identical clauses could not be ordered)
				usedExist = true
				if rng.Intn(2) == 0 {
					r = strings.Trim("exist,"+r, ",")
				} else {
					r = strings.Trim(r+",exist", ",")
				}
			}
			if strings.Trim(r, ",") != "" {
				rules[key], rm[key] = r, r
			}
			if rng.Intn(6) == 0 && len(rm) > 0 {
				continue // key named by the rules but absent from the map
			}
			v := gen.TunedLeaf(rng, t, r, 0.15)
			m.SetMapIndex(reflect.ValueOf(key), v)
			entries = append(entries, ref.FlatEntry{Key: key, Val: v})
		}
		if len(rm) == 0 {
			return
		}
		var in interface{} = m.Interface()
		shareTail(rng, rules, "sh_m")
		rm = toRM(rules)
		env.Begin()
		if rng.Intn(3) == 0 {
			// a slice of 1-3 maps under the same rules: every element is judged on its own (its own
			// values, its own missing keys, its own clause prefix)
			ne := 1 + rng.Intn(3)
			s := reflect.MakeSlice(reflect.SliceOf(m.Type()), 0, ne)
			for e := 0; e < ne; e++ {
				em, ee := m, entries
				if e > 0 {
					em = reflect.MakeMap(m.Type())
					ee = nil
					for k := 0; k < n; k++ {
						key := fmt.Sprintf("k%d", k)
						if rng.Intn(4) == 0 {
							continue // missing in this element only
						}
						v := gen.TunedLeaf(rng, t, rules[key], 0.15)
						em.SetMapIndex(reflect.ValueOf(key), v)
						ee = append(ee, ref.FlatEntry{Key: key, Val: v})
					}
				}
				s = reflect.Append(s, em)
				prefix := fmt.Sprintf("[%d]", e)
				env.ExpectFlat(ee, rules, func(k string) string { return prefix + "map[" + k + "]" }, prefix, true, []ref.OrdKey{{N: e}})
			}
			in = s.Interface()
		} else {
			env.ExpectFlat(entries, rules, func(k string) string { return "map[" + k + "]" }, "", true, nil)
		}
		exps := env.Finish()
		out := drive.Call(func() error { return valid.Map(in, rm) })
		res.Count("entry|Map")
		wit := vWitness{Entry: "Map", Type: fmt.Sprintf("%T", in), Value: fmt.Sprintf("%v", in), Rules: rules}
		if judged, _ := compareCall(res, "C02|Map", "", out, exps, false, env, true, wit); judged {
			noteExps(res, exps)
			if len(exps) > 0 {
				res.Distinct("map|" + wit.Value + "|" + fmt.Sprint(rules))
			}
		}
	default: // Url
		n := 1 + rng.Intn(4)
		rules := map[string]string{}
		rm := valid.RM{}
		entries := []ref.FlatEntry{}
		q := []string{}
		for k := 0; k < n; k++ {
			key := []string{"k0", "k1", "k 2", "k[3]", "键4", "k_5"}[rng.Intn(6)] // duplicates possible; names that change under percent-encoding
			if _, ok := rules[key]; !ok {
				r := gen.RuleList(rng, gen.TString, 4, key, gen.MsgMixed, true)
				if rng.Intn(8) == 0 && !usedExist {
					usedExist = true
					if rng.Intn(2) == 0 {
						r = strings.Trim("exist,"+r, ",")
					} else {
						r = strings.Trim(r+",exist", ",")
					}
				}
				if strings.Trim(r, ",") != "" {
					rules[key], rm[key] = r, r
				}
			}
			v := gen.TunedLeaf(rng, gen.TString, rules[key], 0.15)
			entries = append(entries, ref.FlatEntry{Key: key, Val: v})
			q = append(q, url.QueryEscape(key)+"="+url.QueryEscape(v.String()))
		}
		if rng.Intn(4) == 0 {
			r := "required|m_absent_0"
			rules["absent"], rm["absent"] = r, r
		}
		if len(rm) == 0 {
			return
		}
		u := "http://h.example/p?" + strings.Join(q, "&")
		shareTail(rng, rules, "sh_u")
		rm = toRM(rules)
		env.Begin()
		env.ExpectFlat(entries, rules, func(k string) string { return k }, "", false, nil)
		exps := env.Finish()
		out := drive.Call(func() error { return valid.Url(u, rm) })
		res.Count("entry|Url")
		wit := vWitness{Entry: "Url", Value: u, Rules: rules}
		if judged, _ := compareCall(res, "C02|Url", "", out, exps, false, env, true, wit); judged {
			noteExps(res, exps)
			if len(exps) > 0 {
				res.Distinct("url|" + u + "|" + fmt.Sprint(rules))
			}
		}
	}
	_ = idx
}

// Named types for the inputs whose clause paths contain the type name.
type NT1 struct {
	A  string          `valid:"required|m_a,to=2~4|m_a2"`
	B  int32           `valid:"ge=1|m_b,le=5"`
	C  []int           `valid:"required,unique|m_c"`
	In *NT2            `valid:"exist"`
	L  []NT2           `valid:"required"`
	M  map[string]*NT2 `valid:"exist"`
	u  string          `valid:"required"`
}

type NT2 struct {
	X  string  `valid:"phone|m_x"`
	Y  float64 `valid:"gt=0|必_y,lt=10"`
	E1 string  `valid:"either=1"`
	E2 string  `valid:"either=1"`
}
