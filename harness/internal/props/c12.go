package props

import (
	"encoding/json"
	"fmt"
	"math/rand"
	"os"
	"path/filepath"
	"reflect"
	"runtime"
	"strconv"
	"strings"
	"time"

	"gitee.com/xuesongtao/protoc-go-valid/valid"
	"vmon/internal/core"
	"vmon/internal/drive"
)

// C12 — a call's result depends only on its own arguments and stays fixed afterwards.
//
//   (i)   one history of heterogeneous calls is executed in order, in seeded permutations, and with
//         adversarial predecessors (same type under another tag / with another override / with
//         per-call functions of the same names / failing / refused at the entry guard) in front of
//         every call; per call all results must be equal — and equal to the call executed as the
//         first call of a fresh process for a sample;
//   (ii)  inputs are built twice from the same seed; one copy is given to the library, the twin is
//         kept and compared with reflect.DeepEqual afterwards;
//   (iii) every returned error text, split token and parsed triple is retained next to a clone;
//         after every block of further calls (and a GC) the retained strings are re-compared.

type retained struct {
	live  string // the string as handed out by the library
	clone string // byte copy taken at that moment
	what  string
}

func init() {
	core.Register(&core.Prop{
		ID: "C12",
		Rule: "[plus: six Url calls (several absent required keys, keys differing in letter case, groups) repeated 60 times each with a freshly built rule map, text compared byte for byte] a seeded history of heterogeneous calls (all struct routes under three tag names with overrides and per-call functions, nested rule sets, groups, Var, VarForFn, Map, MapFn, Url, GetOnlyExplainErr, GetDumpStructStr, one-off types) executed in order, in 6 permutations and with an adversarial predecessor before every call; a sample re-executed as the first call of a fresh process; inputs compared with twins built from the same seed after the calls; " +
			"every returned error text, ValidNamesSplit piece and ParseValidNameKV triple retained with a byte copy and re-compared after later calls and garbage collections (binary built with -race, hence checkptr). distinct = distinct (call, order) executions; non-trivial = call returned clauses or ran after an adversarial predecessor",
		Parent: parentC12,
		Run:    runC12,
		Timeout: func(t core.Tier) time.Duration {
			if t == core.Quick {
				return 5 * time.Minute
			}
			return 40 * time.Minute
		},
		Check: func(r *core.Result, t core.Tier) {
			// same_pooled_object_reused is reported but not required: whether validators are pooled is
			// an implementation choice, not part of the property
			for k, min := range map[string]int64{"calls_after_adversarial_predecessor": 1000, "override_then_plain_pairs": 100, "retained_slow_path_tokens": 2000, "retained_error_texts": 1000, "retained_rechecks": 3, "twin_comparisons": 1000, "fresh_process_samples": 10} {
				if r.Counters[k] < min {
					r.Inconc(fmt.Sprintf("under-observed: %s=%d (minimum %d)", k, r.Counters[k], min))
				}
			}
		},
	})
}

func c12Sizes(t core.Tier) (n, perms, fresh int) {
	if t == core.Thorough {
		return 6000, 8, 150
	}
	return 1500, 6, 16
}

func parentC12(p *core.ParentCtx) *core.Result {
	res := p.Res
	shards := 4
	if p.Tier == core.Thorough {
		shards = 16
	}
	specs := []core.ChildSpec{}
	for i := 0; i < shards; i++ {
		specs = append(specs, core.ChildSpec{Shard: i, Of: shards, Mode: "history"})
	}
	outs := p.Spawn(specs, 0)
	for _, oc := range outs {
		if oc.Res != nil {
			res.Merge(oc.Res)
		}
		p.AbsorbRaces(oc)
		p.Absorb(oc)
		if oc.Res == nil {
			continue
		}
		// fresh-process samples: the child wrote (id, result) pairs; each is re-executed as the very
		// first call of a new process
		b, err := os.ReadFile(filepath.Join(oc.WorkDir, "fresh.json"))
		if err != nil {
			res.Inconc("no fresh-process sample list from shard " + strconv.Itoa(oc.Spec.Shard))
			continue
		}
		var want map[string]string
		json.Unmarshal(b, &want)
		fs := []core.ChildSpec{}
		ids := []string{}
		for id := range want {
			ids = append(ids, id)
		}
		sortStrings(ids)
		for _, id := range ids {
			fs = append(fs, core.ChildSpec{Shard: oc.Spec.Shard, Of: shards, Mode: "fresh", Args: map[string]string{"id": id}})
		}
		fouts := p.Spawn(fs, 0)
		for i, fo := range fouts {
			p.Absorb(fo)
			if fo.Res == nil {
				continue
			}
			got, _ := fo.Res.Extra["result"].(string)
			desc, _ := fo.Res.Extra["desc"].(string)
			res.Count("fresh_process_samples")
			res.Eval()
			if got != want[ids[i]] {
				res.Violate("C12|fresh-process-differs", fmt.Sprintf("call %s returned %q inside a history but %q as the first call of a fresh process", trunc(desc, 500), trunc(want[ids[i]], 400), trunc(got, 400)),
					map[string]interface{}{"call": desc, "in_history": want[ids[i]], "fresh_process": got, "seed": p.Seed, "shard": oc.Spec.Shard, "id": ids[i]})
			}
		}
	}
	return res
}

func c12Seed(c *core.Ctx) int64 { return c.Seed*1_000_033 + int64(c.Shard)*101 }

func runC12(c *core.Ctx) {
	res := c.Res
	n, perms, fresh := c12Sizes(c.Tier)
	if c.Mode == "fresh" {
		id, _ := strconv.Atoi(c.Args["id"])
		specs := newSpecGen(c12Seed(c), 12).list(n)
		s := specs[id]
		res.Extra["result"] = s.Run()
		res.Extra["desc"] = s.Desc
		res.Eval()
		return
	}
	res.Assume("results are compared as sorted clause lists; functions inside Name2FnMap values are compared by key set only")
	c12UrlRepeat(res)
	specs := newSpecGen(c12Seed(c), 12).list(n)
	twins := newSpecGen(c12Seed(c), 12).list(n)
	rng := c.Rng("orders")

	var keep []retained
	retain := func(s, what string) {
		if len(s) == 0 || len(keep) >= 200000 {
			return
		}
		keep = append(keep, retained{live: s, clone: strings.Clone(s), what: what})
	}
	recheck := func(when string) {
		runtime.GC()
		res.Count("retained_rechecks")
		for _, r := range keep {
			if r.live != r.clone {
				res.Violate("C12|retained-string-changed|"+strings.SplitN(r.what, " ", 2)[0], fmt.Sprintf("a string handed out by the library changed afterwards (%s): it was %q, it now reads %q [%s]", r.what, trunc(r.clone, 300), trunc(r.live, 300), when),
					map[string]string{"what": r.what, "was": r.clone, "now": r.live})
			}
		}
	}

	// (iii) tokens from the splitter / parser, retained throughout
	tokRng := c.Rng("tokens")
	feedTokens := func(k int) {
		for i := 0; i < k; i++ {
			parts := []string{}
			for j := 0; j < 1+tokRng.Intn(5); j++ {
				switch tokRng.Intn(4) {
				case 0:
					parts = append(parts, fmt.Sprintf("re='^a%d,b$'|'msg,%d'", tokRng.Intn(1000), tokRng.Intn(1000)))
				case 1:
					parts = append(parts, fmt.Sprintf("to=%d~%d|m_%d", tokRng.Intn(9), tokRng.Intn(99), tokRng.Intn(1e6)))
				case 2:
					parts = append(parts, fmt.Sprintf("in=('a,b'/%d)", tokRng.Intn(1e6)))
				default:
					parts = append(parts, "required|必填"+strconv.Itoa(tokRng.Intn(1e6)))
				}
			}
			text := strings.Join(parts, ",")
			pieces := valid.ValidNamesSplit(text)
			for pi, p := range pieces {
				retain(p, fmt.Sprintf("split-token piece %d of %q", pi, text))
				if strings.Contains(text, "'") {
					res.Count("retained_slow_path_tokens")
				}
				k, v, m := valid.ParseValidNameKV(p)
				retain(k, "parsed-key of "+p)
				retain(v, "parsed-value of "+p)
				retain(m, "parsed-message of "+p)
			}
		}
	}

	results := make([]string, len(specs))
	have := make([]bool, len(specs))
	prevByType := map[reflect.Type]*callSpec{}
	lastPool := ""
	exec := func(i int, order string, withPred bool) {
		s := &specs[i]
		c.Journal("C12 %s call #%d %s", order, s.ID, trunc(s.Desc, 200))
		if withPred && len(s.Preds) > 0 {
			s.Preds[rng.Intn(len(s.Preds))]()
			res.Count("calls_after_adversarial_predecessor")
		}
		if s.Type != nil {
			if p := prevByType[s.Type]; p != nil && (p.Kind == "StructForFn" || p.Kind == "StructForFns" || p.Kind == "NestedStructForRule") && (s.Kind == "Struct" || s.Kind == "ValidateStruct" || s.Kind == "Dump" || s.Kind == "ColdType") {
				res.Count("override_then_plain_pairs")
			}
			prevByType[s.Type] = s
		}
		got := s.Run()
		res.Eval()
		if got != "<nil>" || withPred {
			res.DistinctHash(uint64(i)*31 + hashStr(order))
		}
		if got != "<nil>" && !strings.HasPrefix(got, "PANIC") && s.Kind != "Dump" && s.Kind != "Explain" {
			res.Count("retained_error_texts")
		}
		retain(got, "result of "+trunc(s.Desc, 200))
		if !have[i] {
			results[i], have[i] = got, true
			return
		}
		if got != results[i] {
			cls := "permuted-order"
			if withPred {
				cls = "after-adversarial-predecessor"
			}
			res.Violate("C12|history-dependent|"+s.Kind+"|"+cls, fmt.Sprintf("%s returned %q in the first pass but %q in pass %q", trunc(s.Desc, 600), trunc(results[i], 400), trunc(got, 400), order),
				map[string]interface{}{"call": s.Desc, "first_pass": results[i], "this_pass": got, "pass": order, "seed": c.Seed, "shard": c.Shard})
		}
		if i%25 == 3 {
			// is the same pooled validator object handed out again? (sampled)
			vs := valid.NewVStruct()
			key := fmt.Sprintf("%p", vs)
			if key == lastPool {
				res.Count("same_pooled_object_reused")
			}
			lastPool = key
			_ = vs.Valid(&struct{}{})
		}
	}

	// pass 0: in order
	for i := range specs {
		exec(i, "in-order", false)
		if i%500 == 499 {
			feedTokens(300)
			recheck("after pass in-order")
		}
	}
	// (ii) twins after the first pass and again at the end
	twinCheck := func(when string) {
		for i := range specs {
			for k := range specs[i].Inputs {
				res.Count("twin_comparisons")
				a, b := specs[i].Inputs[k], twins[i].Inputs[k]
				if !reflect.DeepEqual(a, b) {
					res.Violate("C12|input-modified|"+specs[i].Kind, fmt.Sprintf("%s: argument #%d differs from its twin %s: now %s, twin %s", trunc(specs[i].Desc, 400), k, when, trunc(fmt.Sprintf("%+v", safeIface(reflect.ValueOf(a))), 300), trunc(fmt.Sprintf("%+v", safeIface(reflect.ValueOf(b))), 300)),
						map[string]interface{}{"call": specs[i].Desc, "argument": k})
				}
			}
		}
	}
	twinCheck("after the first pass")
	// permutations
	for p := 0; p < perms; p++ {
		order := rand.New(rand.NewSource(c12Seed(c) + int64(p) + 1)).Perm(len(specs))
		if p == 0 {
			for i := range order { // the first "permutation" is the exact reverse
				order[i] = len(specs) - 1 - i
			}
		}
		for k, i := range order {
			exec(i, fmt.Sprintf("permutation-%d", p), false)
			if k%700 == 699 {
				feedTokens(100)
			}
		}
		recheck(fmt.Sprintf("after permutation %d", p))
	}
	// adversarial predecessors
	for i := range specs {
		exec(i, "with-predecessor", true)
	}
	for i := len(specs) - 1; i >= 0; i-- {
		exec(i, "with-predecessor-reversed", true)
	}
	recheck("after the predecessor passes")
	twinCheck("at the end")

	// sample for the fresh-process comparison
	want := map[string]string{}
	// state that sticks to whatever came first is identical in every pass of this process; only a
	// fresh process shows it. Three quarters of the sample are calls that supply rules or functions
	// of their own (they are the ones that differ from what a type's first call established).
	for k := 0; k < fresh; k++ {
		i := rng.Intn(len(specs))
		for tries := 0; tries < 50 && k%4 != 0; tries++ {
			if kd := specs[i].Kind; kd == "StructForFn" || kd == "StructForFns" || kd == "NestedStructForRule" {
				break
			}
			i = rng.Intn(len(specs))
		}
		want[strconv.Itoa(i)] = results[i]
	}
	b, _ := json.Marshal(want)
	os.WriteFile(filepath.Join(c.WorkDir, "fresh.json"), b, 0o644)
	if c.Shard == 0 {
		for _, i := range []int{1, len(specs) / 2} {
			res.Sample("call", 2, map[string]interface{}{"call": trunc(specs[i].Desc, 400), "result_in_every_pass": trunc(results[i], 300), "passes": perms + 3})
		}
	}
	res.Count("retained_strings", int64(len(keep)))
}

// c12UrlRepeat: a URL lists its parameters in an order of its own, so nothing in a Url call is a Go map on the input
// side: the very same call, repeated, returns the very same text (for map inputs the order of entries is left open and
// only the sorted clause lists are compared). Rule sets of every shape that could tempt an implementation into iterating
// a Go map for the order: two or more required keys absent from the query, keys that differ only in letter case,
// present and absent keys mixed, groups.
func c12UrlRepeat(res *core.Result) {
	type cs struct {
		url string
		rm  valid.RM
	}
	cases := []cs{
		{"http://h.example/p?other=x", valid.RM{"a": "required", "b": "required"}},
		{"http://h.example/p?other=x", valid.RM{"ID": "required|m1", "id": "required|m2"}},
		{"http://h.example/p?other=x", valid.RM{"zeta": "required", "Alpha": "required", "alpha": "required", "beta": "required,to=1~3"}},
		{"http://h.example/p?b=&a=toolong&c=1", valid.RM{"a": "to=1~3|ma", "b": "required|mb", "c": "ge=5|mc", "d": "required|md", "e": "required"}},
		{"/p?x=1&y=22&z=", valid.RM{"x": "either=1", "y": "either=1,le=1|my", "z": "required", "w": "required", "v": "required"}},
		{"?k=v", valid.RM{"K": "required", "k": "to=3~5|mk", "kk": "required"}},
	}
	for _, c := range cases {
		first := ""
		for rep := 0; rep < 60; rep++ {
			rm := valid.RM{}
			for k, v := range c.rm { // a fresh rule map every time: its internal layout differs from call to call
				rm[k] = v
			}
			out := drive.Call(func() error { return valid.Url(c.url, rm) })
			res.Eval()
			res.Count("url_repeat_calls")
			if out.Panic != "" {
				res.Violate("C12|url-repeat|panic", fmt.Sprintf("Url(%q, %v) panicked: %s", c.url, c.rm, out.Panic), nil)
				break
			}
			if rep == 0 {
				first = out.String()
				continue
			}
			if got := out.String(); got != first {
				res.Violate("C12|url-repeat|text-differs-between-identical-calls", fmt.Sprintf("Url(%q, %v) returned %q at the first call and %q at repetition %d", c.url, c.rm, trunc(first, 300), trunc(got, 300), rep),
					map[string]string{"url": c.url, "rules": fmt.Sprint(c.rm), "first": first, "later": got})
				break
			}
		}
	}
}

func hashStr(s string) uint64 {
	var h uint64 = 1469598103934665603
	for i := 0; i < len(s); i++ {
		h ^= uint64(s[i])
		h *= 1099511628211
	}
	return h
}
