package props

import (
	"encoding/json"
	"fmt"
	"math"
	"math/rand"
	"reflect"
	"strings"
	"sync"

	"gitee.com/xuesongtao/protoc-go-valid/valid"
	"vmon/internal/core"
	"vmon/internal/ref"
)

// C09 — the LRU cache behaves as a bounded least-recently-used map.
// Online reference model stepped in lock-step with the real cache; after every operation the
// monitor compares the return value, Len, the removal-callback log and the full recency order
// (Dump; values are unique per Store).

type lruOp struct {
	Kind byte // 'S' store, 'L' load, 'D' delete, 'N' len
	Key  interface{}
	Val  int
}

func (o lruOp) String() string {
	switch o.Kind {
	case 'S':
		return fmt.Sprintf("Store(%v,%d)", o.Key, o.Val)
	case 'L':
		return fmt.Sprintf("Load(%v)", o.Key)
	case 'D':
		return fmt.Sprintf("Delete(%v)", o.Key)
	}
	return "Len()"
}

type lruWitness struct {
	Cap  int      `json:"cap"`
	Ops  []string `json:"ops"`
	Step int      `json:"failed_at_step"`
	Got  string   `json:"got"`
	Want string   `json:"want"`
}

type cbEntry struct{ k, v interface{} }

// runLRUSeq executes ops on a fresh real cache and the model; returns "" or (kind, got, want, step).
func runLRUSeq(capacity int, ops []lruOp, finalProbe []interface{}, st *lruStats) (kind, got, want string, step int) {
	defer func() {
		if r := recover(); r != nil {
			kind, got, want = "panic", fmt.Sprint(r), "no panic"
		}
	}()
	real := valid.NewLRU(capacity)
	model := ref.NewLRU(capacity)
	var cbs []cbEntry
	// the callback is a setting: the one installed last is THE callback. A callback installed before it never fires
	// again, and installing the recorder anew (every few operations, below) does not make it fire twice.
	stale := 0
	real.SetDelCallBackFn(func(k, v interface{}) { stale++ })
	real.SetDelCallBackFn(func(k, v interface{}) { cbs = append(cbs, cbEntry{k, v}) })
	check := func(i int) bool {
		if stale > 0 {
			kind, got, want, step = "replaced-callback-fired", fmt.Sprint(stale), "0", i
			return false
		}
		if i%5 == 3 {
			real.SetDelCallBackFn(func(k, v interface{}) { cbs = append(cbs, cbEntry{k, v}) })
		}
		if l := real.Len(); l != model.Len() {
			kind, got, want, step = "len", fmt.Sprint(l), fmt.Sprint(model.Len()), i
			return false
		}
		if model.Len() > capacity && capacity >= 0 {
			kind, got, want, step = "model-overflow", "", "", i
			return false
		}
		if len(cbs) != len(model.Log) {
			kind, got, want, step = "callback-count", fmt.Sprint(cbs), fmt.Sprint(model.Log), i
			return false
		}
		for j := range cbs {
			if cbs[j].k != model.Log[j].K || cbs[j].v != model.Log[j].V {
				kind, got, want, step = "callback-content", fmt.Sprint(cbs), fmt.Sprint(model.Log), i
				return false
			}
		}
		if d, md := normDump(real.Dump()), model.Dump(); dumpUsable() && d != md {
			kind, got, want, step = "recency-order", strings.ReplaceAll(d, "\n", ","), strings.ReplaceAll(md, "\n", ","), i
			return false
		}
		return true
	}
	for i, op := range ops {
		step = i
		switch op.Kind {
		case 'S':
			if st != nil {
				if _, hit := modelPeek(model, op.Key); hit {
					st.restores++
				}
				if model.Len() == capacity && capacity > 0 {
					if _, hit := modelPeek(model, op.Key); !hit {
						st.evictions++
						// was recency decisive? the FIFO victim is the entry inserted earliest
						if st.fifoVictimDiffers(model) {
							st.recencyDecisive++
						}
					}
				}
			}
			real.Store(op.Key, op.Val)
			model.Store(op.Key, op.Val)
			if st != nil {
				st.noteInsert(op.Key, op.Val)
			}
		case 'L':
			rv, rok := real.Load(op.Key)
			mv, mok := model.Load(op.Key)
			if rok != mok {
				return "load-hit", fmt.Sprint(rok), fmt.Sprint(mok), i
			}
			if rok && rv != mv {
				return "load-value", fmt.Sprint(rv), fmt.Sprint(mv), i
			}
			if st != nil && rok {
				st.hits++
			}
		case 'D':
			real.Delete(op.Key)
			model.Delete(op.Key)
		case 'N':
		}
		if !check(i) {
			return
		}
	}
	// final probe: every key of the alphabet must hit exactly when the model holds it
	for _, k := range finalProbe {
		rv, rok := real.Load(k)
		mv, mok := model.Load(k)
		if rok != mok || (rok && rv != mv) {
			return "final-probe", fmt.Sprintf("%v,%v", rv, rok), fmt.Sprintf("%v,%v", mv, mok), len(ops)
		}
	}
	if st != nil {
		st.removals += int64(len(model.Log))
	}
	return "", "", "", 0
}

func modelPeek(m *ref.LRU, k interface{}) (interface{}, bool) {
	for _, e := range m.Entries {
		if e.K == k {
			return e.V, true
		}
	}
	return nil, false
}

type lruStats struct {
	restores, evictions, recencyDecisive, hits, removals int64
	insertedAt                                           map[interface{}]int // key -> value at insertion (values grow monotonically)
}

func (s *lruStats) noteInsert(k interface{}, v int) {
	if s.insertedAt == nil {
		s.insertedAt = map[interface{}]int{}
	}
	if _, ok := s.insertedAt[k]; !ok {
		s.insertedAt[k] = v
	}
}

// fifoVictimDiffers: among live entries, is the one inserted earliest different from the LRU one?
func (s *lruStats) fifoVictimDiffers(m *ref.LRU) bool {
	if len(m.Entries) == 0 {
		return false
	}
	lru := m.Entries[len(m.Entries)-1].K
	best, bestV := interface{}(nil), int(^uint(0)>>1)
	for _, e := range m.Entries {
		if v, ok := s.insertedAt[e.K]; ok && v < bestV {
			best, bestV = e.K, v
		}
	}
	return best != lru
}

type structKey struct {
	A int
	B string
}

func init() {
	core.Register(&core.Prop{
		ID: "C09",
		Rule: "[the removal callback is installed after a decoy that must never fire and is re-installed every fifth operation] bounded-exhaustive: every sequence of length<=L over the 10-letter alphabet {Store(k,fresh) , Load(k), Delete(k) : k in {a,b,c}} + {Len} on capacities 0..4, executed on a fresh real LRUCache in lock-step with a reference LRU, comparing return value, Len, callback log and Dump (full recency order) after EVERY operation plus a final probe of every key; " +
			"random: long sequences on capacities {0,1,2,3,4,7,64,512} with key sets 1.2-3x capacity and keys of several dynamic types; values of every dynamic kind (nil interface, typed nil, uncomparable) through Delete / eviction / overwrite; fault injection at the hook: a removal callback that panics on every k-th invocation (caller recovers) on capacities 1..4 — the cache must stay the model's bounded LRU map. distinct = distinct (capacity, op sequence) with at least one Store; non-trivial = sequence contains a Store",
		Exhaustive: func(t core.Tier) bool { return true },
		Shards:     func(t core.Tier) int { return 16 },
		Run:        runC09,
		Check: func(r *core.Result, t core.Tier) {
			need := map[string]int64{"rebuild_crossings": 100, "evictions_recency_decisive": 10000, "restores_of_live_key": 10000, "exhaustive_sequences": 1}
			for k, n := range need {
				if r.Counters[k] < n {
					r.Inconc(fmt.Sprintf("minimum observation not met: %s=%d < %d", k, r.Counters[k], n))
				}
			}
		},
		Replay: func(raw json.RawMessage) string {
			var w lruWitness
			if err := json.Unmarshal(raw, &w); err != nil {
				return err.Error()
			}
			ops := []lruOp{}
			for _, s := range w.Ops {
				var k string
				var v int
				switch {
				case strings.HasPrefix(s, "Store("):
					fmt.Sscanf(strings.NewReplacer("(", " ", ",", " ", ")", " ").Replace(s[5:]), "%s %d", &k, &v)
					ops = append(ops, lruOp{'S', k, v})
				case strings.HasPrefix(s, "Load("):
					ops = append(ops, lruOp{'L', strings.Trim(s[4:], "()"), 0})
				case strings.HasPrefix(s, "Delete("):
					ops = append(ops, lruOp{'D', strings.Trim(s[6:], "()"), 0})
				default:
					ops = append(ops, lruOp{'N', nil, 0})
				}
			}
			kind, got, want, step := runLRUSeq(w.Cap, ops, nil, nil)
			if kind == "" {
				return "no disagreement (keys are re-read as strings; non-string keys are not replayable)"
			}
			return fmt.Sprintf("%s at step %d: got %s want %s", kind, step, got, want)
		},
	})
}

func runC09(c *core.Ctx) {
	res := c.Res
	res.Assume("Store on a present key replaces the value and counts as a use; replacement fires no removal callback (the statement names only evicted or deleted entries)")
	res.Assume("capacity 0: an inserted entry is itself the least recently used one and is evicted at once, with its callback")
	keys := []interface{}{"a", "b", "c"}
	// ---- the constructor without an argument (documented default capacity) must give a usable cache
	if c.Shard == 0 {
		func() {
			defer func() {
				if r := recover(); r != nil {
					res.Violate("C09|constructor-default|panic", fmt.Sprintf("NewLRU() without a capacity argument panicked: %v", r), nil)
				}
			}()
			l := valid.NewLRU()
			for i := 0; i < 2000; i++ {
				l.Store(i, i)
			}
			v, ok := l.Load(1999)
			if n := l.Len(); n <= 0 || n > 2000 || !ok || v != 1999 {
				res.Violate("C09|constructor-default|unusable", fmt.Sprintf("NewLRU(): after 2000 stores Len()=%d, Load(last)=%v,%v", n, v, ok), nil)
			}
			res.Eval()
		}()
	}
	// ---- values of every dynamic kind (uncomparable ones included), overwritten at the front and
	// away from it; signed zeros; the largest capacity
	if c.Shard == 0 {
		c09ValueKinds(res)
		c09LargeCapacity(res)
	}
	c09PanickingCallback(res, c.Rng("panicking-callback"), c.Pick(2000, 60000))
	// ---- bounded exhaustive
	L := c.Pick(6, 7)
	alphabet := []lruOp{}
	for _, k := range keys {
		alphabet = append(alphabet, lruOp{'S', k, 0}, lruOp{'L', k, 0}, lruOp{'D', k, 0})
	}
	alphabet = append(alphabet, lruOp{'N', nil, 0})
	A := len(alphabet)
	total := 0
	for l := 1; l <= L; l++ {
		n := 1
		for i := 0; i < l; i++ {
			n *= A
		}
		total += n
	}
	st := &lruStats{}
	idx := 0
	ops := make([]lruOp, 0, L)
	for l := 1; l <= L; l++ {
		n := 1
		for i := 0; i < l; i++ {
			n *= A
		}
		for code := 0; code < n; code++ {
			idx++
			if !c.Mine(idx) {
				continue
			}
			ops = ops[:0]
			x := code
			hasStore := false
			val := 1000
			for i := 0; i < l; i++ {
				op := alphabet[x%A]
				x /= A
				if op.Kind == 'S' {
					val++
					op.Val = val
					hasStore = true
				}
				ops = append(ops, op)
			}
			for capacity := 0; capacity <= 4; capacity++ {
				res.Eval()
				kind, got, want, step := runLRUSeq(capacity, ops, keys, st)
				if hasStore {
					res.DistinctEnum(1)
				}
				res.Count("exhaustive_sequences")
				if kind != "" {
					reportLRU(res, "exhaustive", capacity, ops, kind, got, want, step)
				}
			}
		}
	}
	res.Extra["exhaustive_length_bound"] = L
	res.Extra["exhaustive_sequences_total_all_shards"] = total * 5
	if c.Shard == 0 {
		res.Sample("exhaustive", 1, map[string]interface{}{"cap": 2, "ops": "Store(a,1001) Store(b,1002) Load(a) Store(c,1003) -> b evicted; Load(b) miss"})
	}

	// ---- long random sequences
	rng := c.Rng("random")
	caps := []int{0, 1, 2, 3, 4, 7, 64, 512}
	nseq := c.Pick(20, 300) // per shard
	nops := c.Pick(4000, 5000)
	for s := 0; s < nseq; s++ {
		capacity := caps[rng.Intn(len(caps))]
		nk := capacity + 1 + rng.Intn(2*capacity+2)
		if capacity >= 64 {
			nk = capacity + capacity/5 + rng.Intn(capacity)
		}
		pool := make([]interface{}, nk)
		for i := range pool {
			switch rng.Intn(5) {
			case 0:
				pool[i] = i
			case 1:
				pool[i] = fmt.Sprintf("k%d", i)
			case 2:
				pool[i] = structKey{i, "s"}
			case 3:
				pool[i] = int64(i)
			default:
				pool[i] = fmt.Sprintf("键%d", i)
			}
		}
		if rng.Intn(4) == 0 {
			pool[0] = nil // nil interface key
		}
		seq := make([]lruOp, nops)
		val := 100000
		wS, wL, wD := 5, 4, 1+rng.Intn(3)
		for i := range seq {
			k := pool[rng.Intn(len(pool))]
			r := rng.Intn(wS + wL + wD + 1)
			switch {
			case r < wS:
				val++
				seq[i] = lruOp{'S', k, val}
			case r < wS+wL:
				seq[i] = lruOp{'L', k, 0}
			case r < wS+wL+wD:
				seq[i] = lruOp{'D', k, 0}
			default:
				seq[i] = lruOp{'N', nil, 0}
			}
		}
		st2 := &lruStats{}
		kind, got, want, step := runLRUSeq(capacity, seq, pool, st2)
		res.Eval()
		res.Count("random_sequences")
		res.Count("random_ops", int64(nops))
		res.Distinct(fmt.Sprintf("rnd|%d|%d|%d|%d", c.Seed, c.Shard, s, capacity))
		res.Count("evictions_recency_decisive", st2.recencyDecisive)
		res.Count("evictions", st2.evictions)
		res.Count("restores_of_live_key", st2.restores)
		res.Count("load_hits", st2.hits)
		res.Count("removals", st2.removals)
		// the cache rebuilds its map once delMapCount exceeds 2*cap: every (2*cap+2) removals
		res.Count("rebuild_crossings", st2.removals/int64(2*capacity+2))
		if kind != "" {
			trim := seq
			if step+1 < len(trim) {
				trim = trim[:step+1]
			}
			reportLRU(res, "random", capacity, trim, kind, got, want, step)
		}
		if s == 0 {
			res.Sample("random", 1, map[string]interface{}{"cap": capacity, "keys": nk, "ops": nops, "first_ops": opsStr(seq[:8])})
		}
	}
	res.Count("evictions_recency_decisive", st.recencyDecisive)
	res.Count("evictions", st.evictions)
	res.Count("restores_of_live_key", st.restores)
}

func opsStr(ops []lruOp) []string {
	out := make([]string, len(ops))
	for i, o := range ops {
		out[i] = o.String()
	}
	return out
}

func capClass(c int) string {
	switch {
	case c == 0:
		return "cap0"
	case c <= 4:
		return "cap1-4"
	}
	return "cap>4"
}

func reportLRU(res *core.Result, phase string, capacity int, ops []lruOp, kind, got, want string, step int) {
	w := ops
	if len(w) > 60 {
		w = w[len(w)-60:]
	}
	res.Violate("C09|"+kind+"|"+capClass(capacity),
		fmt.Sprintf("%s: capacity %d, %s at step %d (%s): got %s, want %s; ops(tail)=%v", phase, capacity, kind, step, ops[min(step, len(ops)-1)], got, want, opsStr(w)),
		lruWitness{Cap: capacity, Ops: opsStr(ops), Step: step, Got: got, Want: want})
}

// The format of Dump is not part of any property; it is used as a full-state observation only while
// it has the shape this harness understands (one line per entry, values front to back). A
// calibration on a two-entry cache decides that once per process; if it fails, Dump comparisons are
// skipped (and counted) and the behavioural observations (Load, Len, victims, callbacks) remain.
var (
	dumpOnce sync.Once
	dumpOK   bool
)

func dumpUsable() bool {
	dumpOnce.Do(func() {
		defer func() { recover() }()
		l := valid.NewLRU(4)
		l.Store("ka", 11)
		l.Store("kb", 22)
		dumpOK = normDump(l.Dump()) == "22\n11"
	})
	return dumpOK
}

// normDump: lines trimmed, empty lines dropped.
func normDump(d string) string {
	var out []string
	for _, ln := range strings.Split(d, "\n") {
		if t := strings.TrimSpace(ln); t != "" {
			out = append(out, t)
		}
	}
	return strings.Join(out, "\n")
}

func dumpLines(d string) int {
	if n := normDump(d); n != "" {
		return strings.Count(n, "\n") + 1
	}
	return 0
}

// c09LargeCapacity: a capacity in the thousands is honoured exactly (no eviction before it is reached,
// eviction of the oldest entry at capacity+1).
func c09LargeCapacity(res *core.Result) {
	for _, capacity := range []int{4097, 5000, 70000} {
		l := valid.NewLRU(capacity)
		removed := []interface{}{}
		l.SetDelCallBackFn(func(k, v interface{}) { removed = append(removed, k) })
		for i := 0; i < capacity; i++ {
			l.Store(i, i)
		}
		res.Eval()
		_, ok0 := l.Load(0) // also makes key 0 the most recently used one
		if n := l.Len(); n != capacity || len(removed) != 0 || !ok0 {
			res.Violate("C09|large-capacity|early-eviction", fmt.Sprintf("NewLRU(%d): after %d stores Len()=%d, %d removal callbacks, Load(first key) hit=%v", capacity, capacity, n, len(removed), ok0), capacity)
			continue
		}
		l.Store(capacity, capacity) // overflow: the least recently used key is 1 (0 was just loaded)
		if n := l.Len(); n != capacity || len(removed) != 1 || removed[0] != 1 {
			res.Violate("C09|large-capacity|overflow", fmt.Sprintf("NewLRU(%d): overflow left Len()=%d and removed %v (want key 1)", capacity, n, removed), capacity)
		}
	}
}

// c09PanickingCallback: a fault injected at the hook. The removal callback panics on every k-th
// invocation and the caller recovers (as a caller wrapping the cache would); the operation in which
// the callback ran has still removed its entry, and the cache stays the bounded LRU map it was:
// Len, hits, values and later callbacks follow the model, which counts the panicking invocation as
// the one callback of that entry.
func c09PanickingCallback(res *core.Result, rng *rand.Rand, n int) {
	type sentinel struct{}
	for it := 0; it < n; it++ {
		capacity := 1 + rng.Intn(4)
		every := 1 + rng.Intn(3)
		real := valid.NewLRU(capacity)
		model := ref.NewLRU(capacity)
		var cbs []cbEntry
		real.SetDelCallBackFn(func(k, v interface{}) {
			cbs = append(cbs, cbEntry{k, v})
			if len(cbs)%every == 0 {
				panic(sentinel{})
			}
		})
		guarded := func(f func()) (other interface{}) {
			defer func() {
				if r := recover(); r != nil {
					if _, ok := r.(sentinel); !ok {
						other = r
					}
				}
			}()
			f()
			return nil
		}
		var trace []string
		bad := ""
		for step := 0; step < 14 && bad == ""; step++ {
			k := rng.Intn(capacity + 2)
			var other interface{}
			switch rng.Intn(4) {
			case 0, 1:
				v := 100*it + step
				trace = append(trace, fmt.Sprintf("Store(%d,%d)", k, v))
				other = guarded(func() { real.Store(k, v) })
				model.Store(k, v)
			case 2:
				trace = append(trace, fmt.Sprintf("Delete(%d)", k))
				other = guarded(func() { real.Delete(k) })
				model.Delete(k)
			default:
				trace = append(trace, fmt.Sprintf("Load(%d)", k))
				rv, rok := real.Load(k)
				mv, mok := model.Load(k)
				if rok != mok || (rok && rv != mv) {
					bad = fmt.Sprintf("Load(%d) = %v,%v, model %v,%v", k, rv, rok, mv, mok)
				}
			}
			if other != nil {
				bad = fmt.Sprintf("the operation panicked with %v (not the callback's own panic)", other)
			}
			if l := real.Len(); bad == "" && l != model.Len() {
				bad = fmt.Sprintf("Len()=%d, model %d", l, model.Len())
			}
			if bad == "" && len(cbs) != len(model.Log) {
				bad = fmt.Sprintf("%d callbacks so far, model %d: %v vs %v", len(cbs), len(model.Log), cbs, model.Log)
			}
			for j := 0; bad == "" && j < len(cbs); j++ {
				if cbs[j].k != model.Log[j].K || cbs[j].v != model.Log[j].V {
					bad = fmt.Sprintf("callback #%d was (%v,%v), model (%v,%v)", j, cbs[j].k, cbs[j].v, model.Log[j].K, model.Log[j].V)
				}
			}
		}
		for k := 0; bad == "" && k < capacity+2; k++ {
			rv, rok := real.Load(k)
			mv, mok := model.Load(k)
			if rok != mok || (rok && rv != mv) {
				bad = fmt.Sprintf("final Load(%d) = %v,%v, model %v,%v", k, rv, rok, mv, mok)
			}
		}
		res.Eval()
		res.Count("panicking_callback_sequences")
		res.Count("panicking_callback_invocations", int64(len(cbs)/every))
		if bad != "" {
			res.Violate("C09|panicking-callback|inconsistent", fmt.Sprintf("capacity %d, callback panics on every %d. invocation (recovered by the caller): after %v: %s", capacity, every, trace, bad),
				map[string]interface{}{"cap": capacity, "panic_every": every, "ops": trace, "problem": bad})
		}
	}
}

func c09ValueKinds(res *core.Result) {
	f1, f2 := func() int { return 1 }, func() int { return 2 }
	type pair struct {
		name   string
		v1, v2 interface{}
		same   func(got, want interface{}) bool
	}
	deep := func(a, b interface{}) bool { return reflect.DeepEqual(a, b) }
	pairs := []pair{
		{"[]int", []int{1, 2}, []int{3}, deep},
		{"[]int equal content", []int{1, 2}, []int{1, 2}, deep},
		{"map", map[string]int{"a": 1}, map[string]int{"b": 2}, deep},
		{"struct with slice", struct{ S []string }{[]string{"x"}}, struct{ S []string }{[]string{"y"}}, deep},
		{"func", f1, f2, func(a, b interface{}) bool { return reflect.ValueOf(a).Pointer() == reflect.ValueOf(b).Pointer() }},
		{"+0.0 then -0.0", 0.0, math.Copysign(0, -1), func(a, b interface{}) bool {
			x, ok1 := a.(float64)
			y, ok2 := b.(float64)
			return ok1 && ok2 && x == y && math.Signbit(x) == math.Signbit(y)
		}},
		{"int then string", 7, "7", deep},
		{"nil then 0", nil, 0, deep},
	}
	for _, capacity := range []int{1, 2, 3, math.MaxInt, math.MaxInt - 1} {
		for _, front := range []bool{true, false} {
			for _, p := range pairs {
				func() {
					desc := fmt.Sprintf("capacity %d, values %s, overwritten key at the front=%v", capacity, p.name, front)
					defer func() {
						if r := recover(); r != nil {
							res.Violate("C09|value-kinds|panic", fmt.Sprintf("%s: panic %v", desc, r), desc)
						}
					}()
					l := valid.NewLRU(capacity)
					removed := 0
					l.SetDelCallBackFn(func(k, v interface{}) { removed++ })
					l.Store("k", p.v1)
					if !front && capacity >= 2 {
						l.Store("other", 1) // "k" is no longer the most recently used key
					}
					l.Store("k", p.v2)
					got, ok := l.Load("k")
					res.Eval()
					wantLen := 1
					if !front && capacity >= 2 {
						wantLen = 2
					}
					if !ok || !p.same(got, p.v2) {
						res.Violate("C09|value-kinds|stale-value", fmt.Sprintf("%s: Store(k,v1) Store(k,v2) Load(k) returned %v,%v — not the value most recently stored", desc, got, ok), desc)
					}
					if n := l.Len(); n != wantLen || removed != 0 {
						res.Violate("C09|value-kinds|len-or-callback", fmt.Sprintf("%s: Len()=%d (want %d), removal callbacks=%d (want 0)", desc, n, wantLen, removed), desc)
					}
				}()
			}
		}
	}
	// the removal callback fires exactly once with the key and the value, whatever the value is
	// (nil interface, typed nil pointer, zero values, uncomparable values), for Delete and for eviction
	var nilPtr *int
	vals := []struct {
		name string
		v    interface{}
	}{{"nil interface", nil}, {"typed nil pointer", nilPtr}, {"0", 0}, {"empty string", ""}, {"false", false}, {"nil slice", []int(nil)}, {"slice", []int{1}}, {"map", map[string]int{"a": 1}}, {"nil map", map[string]int(nil)}, {"func", f1}, {"struct{}", struct{}{}}, {"nil error", error(nil)}}
	for _, how := range []string{"delete", "evict", "overwrite-then-delete", "evict-after-load"} {
		for _, x := range vals {
			func() {
				desc := fmt.Sprintf("value %s removed by %s", x.name, how)
				defer func() {
					if r := recover(); r != nil {
						res.Violate("C09|value-kinds|panic", fmt.Sprintf("%s: panic %v", desc, r), desc)
					}
				}()
				var got []cbEntry
				l := valid.NewLRU(2)
				l.SetDelCallBackFn(func(k, v interface{}) { got = append(got, cbEntry{k, v}) })
				switch how {
				case "delete":
					l.Store("k", x.v)
					l.Delete("k")
				case "evict":
					l.Store("k", x.v)
					l.Store("a", 1)
					l.Store("b", 2)
				case "overwrite-then-delete":
					l.Store("k", 5)
					l.Store("k", x.v)
					l.Delete("k")
				case "evict-after-load":
					l.Store("k", x.v)
					l.Store("a", 1)
					l.Load("a")
					l.Store("b", 2)
				}
				res.Eval()
				res.Count("callback_value_kind_cases")
				if len(got) != 1 || got[0].k != "k" || !reflect.DeepEqual(got[0].v, x.v) && x.name != "func" {
					res.Violate("C09|value-kinds|callback", fmt.Sprintf("%s: callbacks received %d %+v, want exactly one (k, %v)", desc, len(got), got, x.v), desc)
				}
				if n := l.Len(); (how == "delete" || how == "overwrite-then-delete") && n != 0 || (how == "evict" || how == "evict-after-load") && n != 2 {
					res.Violate("C09|value-kinds|len-or-callback", fmt.Sprintf("%s: Len()=%d afterwards", desc, n), desc)
				}
			}()
		}
	}
}
