package props

import (
	"bufio"
	"encoding/json"
	"fmt"
	"math/rand"
	"os"
	"path/filepath"
	"reflect"
	"sort"
	"strconv"
	"strings"
	"sync"
	"time"
	"unsafe"

	"gitee.com/xuesongtao/protoc-go-valid/valid"
	"vmon/internal/clause"
	"vmon/internal/core"
	"vmon/internal/drive"
	"vmon/internal/gen"
	"vmon/internal/ref"
)

// C08 — the struct-type cache is transparent.
//
// Relational monitor: one seeded call history H is executed, unchanged, in N child processes that
// differ only in the cache installed (before the first call, through the public
// SetStructTypeCache) or in the order / repetition of the calls. Per call id all children must
// return the same clauses. The always-miss child analyses every type from scratch on every call and
// is therefore the history-free baseline.

type c08Call struct {
	ID    int
	Hot   int // index of the hot type, -1 for a cold filler
	Cold  int // index of the cold filler type
	Val   int // which of the pre-generated values of the type
	Entry int // 0 ValidateStruct(tag) 1 StructForFn(rm, tag) 2 Struct(rm) 3 Struct() 4 StructForFns(nil, fns, tag) 5 GetDumpStructStr(v) (another reader of the type cache; its text is not compared)
	Tag   string
	RM    map[string]string
	Fns   []string // names of per-call functions (Entry 4: StructForFns); each reports a marker naming the call
}

type c08Hist struct {
	HotTypes  []reflect.Type
	HotVals   [][]reflect.Value // pointers to struct values
	ColdTypes []reflect.Type
	ColdVals  []reflect.Value
	Calls     []c08Call
}

// "a" and "A" differ only in letter case: two tag names, two rule sets
// ... and two names longer than 16 bytes that share their first 18
// C08Order <-> C08Detail: two named types that refer to each other.
type C08Order struct {
	No      string       `valid:"required|m_order_no" a:"to=2~3|m_order_no_a"`
	Details []*C08Detail `valid:"exist" a:"exist" b:"required|m_details_b"`
}

type C08Detail struct {
	Sku   string    `valid:"required|m_sku" b:"required|m_sku_b"`
	Order *C08Order `valid:"exist" a:"exist"`
}

var c08Tags = []string{"valid", "a", "b", "A", "wechatMiniProgramV1", "wechatMiniProgramV2"}

// the tag names calls ask for: those above and the empty name (no field has rules under it — and it is not the default name)
var c08CallTags = append(append([]string{}, c08Tags...), "")

// pairs of tag names that a short digest cannot tell apart (FNV-1 / FNV-1a 32, CRC-32 IEEE / Castagnoli, Adler-32,
// h*31+c, h*33+c, sdbm, the low half and the folded halves of FNV-1a 64; "costarring"/"liquid" is the textbook
// FNV-1a 32 pair), plus names that differ only in the order or the sum of their letters: a name is its spelling
var c08TwinTags = [][2]string{{"costarring", "liquid"}, {"kdtjpcw", "ydmeauj"}, {"meallgyo", "gqdfb"}, {"vviyrl", "xlwta"}, {"arsexfwh", "kteewmv"}, {"qctshxc", "uneazwd"},
	{"tusogpw", "qdaezt"}, {"nnfma", "daxlhdxc"}, {"dnpxxwp", "crssdt"}, {"iupul", "tptyvaxa"}, {"rpplw", "ewboz"}, {"Aa", "BB"}, {"abc", "cba"}, {"ad", "bc"}}

// c08Build builds the history; it depends on (seed, tier) only, so every child and the parent build
// the very same types, values and calls.
func c08Build(rng *rand.Rand, nHot, nCold, rounds, hotBlock int) *c08Hist {
	h := &c08Hist{}
	seq := 0
	plan := tagPlan{TagNames: c08Tags, Style: gen.MsgMixed, MaxRules: 3, Unknown: true, Groups: true, Decoys: true, seq: &seq}
	// no Go maps inside the values: their iteration order would make the error text differ between
	// two executions for reasons that have nothing to do with the cache
	to := gen.TypeOpts{MaxFields: 5, MaxDepth: 2, Leaf: vLeafTypes, Unexported: true, Ptr: true, PtrPtr: true, Slices: true, Arrays: true, Maps: false, Tag: plan.ruleTag, Time: true}
	for i := 0; i < nHot; i++ {
		t := gen.RandStruct(rng, to)
		if i%2 == 1 && len(namedTypesNoMap) > 0 {
			t = namedTypesNoMap[rng.Intn(len(namedTypesNoMap))] // named type (non-empty struct name in paths and name-keyed state)
		}
		h.HotTypes = append(h.HotTypes, t)
		vals := []reflect.Value{}
		for j := 0; j < 3; j++ {
			vals = append(vals, ptrTo(tunedFill(rng, t, c08Tags[rng.Intn(len(c08Tags))], 0.15)))
		}
		h.HotVals = append(h.HotVals, vals)
	}
	// types whose tag literals are legal Go but not in the conventional key:"value" form (Lookup finds
	// nothing, or only part of it): whatever the library says about them, it must say on every call
	oddTags := []string{`json:name valid:"required|m_odd1"`, `valid:required`, `valid:"required|m_odd2" json`, `  valid:"ge=1|m_odd3"`, `valid:"ge=1|m_odd4"json:"x"`, `valid: "required"`, `a:"le=2|m_odd5" valid`, `b:x a:"required|m_odd6"`}
	for i, tg := range oddTags {
		t := reflect.StructOf([]reflect.StructField{{Name: "N", Type: gen.TInt, Tag: reflect.StructTag(tg)}, {Name: "S", Type: gen.TString, Tag: reflect.StructTag(tg)}, {Name: fmt.Sprintf("Z%d", i), Type: gen.TString, Tag: `valid:"required|m_z"`}})
		h.HotTypes = append(h.HotTypes, t)
		vals := []reflect.Value{}
		for j := 0; j < 3; j++ {
			v := reflect.New(t)
			v.Elem().Field(0).SetInt(int64(j * 3))
			vals = append(vals, v)
		}
		h.HotVals = append(h.HotVals, vals)
	}
	// fields of kinds a validator rarely meets (func, chan, complex, interface, unsafe pointer, map of scalars, byte
	// array), each under required for every tag name: a cached analysis must not lose what a fresh one sees
	{
		rq := func(n string) reflect.StructTag {
			return reflect.StructTag(fmt.Sprintf(`valid:"required|m_%s" a:"required|m_%s_a" b:"required|m_%s_b"`, n, n, n))
		}
		rare := reflect.StructOf([]reflect.StructField{
			{Name: "Fn", Type: reflect.TypeOf((func())(nil)), Tag: rq("fn")},
			{Name: "Ch", Type: reflect.TypeOf((chan int)(nil)), Tag: rq("ch")},
			{Name: "Cx", Type: reflect.TypeOf(complex128(0)), Tag: rq("cx")},
			{Name: "If", Type: reflect.TypeOf((*interface{})(nil)).Elem(), Tag: rq("if")},
			{Name: "Up", Type: reflect.TypeOf(unsafe.Pointer(nil)), Tag: rq("up")},
			{Name: "Mp", Type: reflect.TypeOf(map[string]int(nil)), Tag: rq("mp")},
			{Name: "By", Type: reflect.TypeOf([2]byte{}), Tag: rq("by")},
			{Name: "N", Type: gen.TInt, Tag: `valid:"ge=1|m_rare_n" a:"le=2|m_rare_n_a"`},
		})
		vals := []reflect.Value{}
		for j := 0; j < 3; j++ {
			v := reflect.New(rare)
			e := v.Elem()
			e.Field(7).SetInt(int64(j * 2))
			if j >= 1 {
				x := 1
				e.Field(0).Set(reflect.ValueOf(func() {}))
				e.Field(2).SetComplex(complex(1, 2))
				e.Field(4).SetPointer(unsafe.Pointer(&x))
				e.Field(6).Set(reflect.ValueOf([2]byte{0, 7}))
			}
			if j == 1 {
				e.Field(1).Set(reflect.ValueOf(make(chan int)))
				e.Field(3).Set(reflect.ValueOf("x"))
				e.Field(5).Set(reflect.ValueOf(map[string]int{"k": 1}))
			}
			vals = append(vals, v)
		}
		h.HotTypes = append(h.HotTypes, rare)
		h.HotVals = append(h.HotVals, vals)
	}
	// named types in a reference cycle (a list node, a parent <-> child pair): whatever the cache
	// holds or forgets, analysing them terminates and gives the same result
	{
		h.HotTypes = append(h.HotTypes, reflect.TypeOf(C04Chain{}))
		h.HotVals = append(h.HotVals, []reflect.Value{reflect.ValueOf(c04Chain(3, 0)), reflect.ValueOf(c04Chain(2, 1)), reflect.ValueOf(c04Chain(4, 0))})
		mkPair := func(n int) reflect.Value {
			o := &C08Order{No: "o"}
			for k := 0; k < n; k++ {
				// the TYPES refer to each other; the values form a finite tree (no object is its own descendant)
				d := &C08Detail{Sku: []string{"", "s"}[k%2], Order: &C08Order{No: "inner"}}
				if k == n-1 {
					d.Order = &C08Order{} // an order without number, reached through a detail
				}
				o.Details = append(o.Details, d)
			}
			return reflect.ValueOf(o)
		}
		h.HotTypes = append(h.HotTypes, reflect.TypeOf(C08Order{}))
		h.HotVals = append(h.HotVals, []reflect.Value{mkPair(1), mkPair(2), mkPair(3)})
	}
	// wrappers: an anonymous hot type also occurs as a member (value, slice element) of an outer type,
	// so that the same type is analysed now at a nested position, now on its own, in either order
	for i, n := 0, len(h.HotTypes); i < n && i < 2*nHot; i++ {
		t := h.HotTypes[i]
		if t.Name() != "" || i%2 != 0 {
			continue
		}
		ex := reflect.StructTag(`valid:"exist" a:"exist" b:"required|m_wrap" A:"exist"`)
		wt := reflect.StructOf([]reflect.StructField{
			{Name: "Lead", Type: gen.TString, Tag: `valid:"required|m_lead" a:"to=1~2|m_lead_a"`},
			{Name: "Detail", Type: t, Tag: ex},
			{Name: "List", Type: reflect.SliceOf(t), Tag: ex},
		})
		vals := []reflect.Value{}
		for j := 0; j < 3; j++ {
			w := reflect.New(wt)
			w.Elem().Field(1).Set(h.HotVals[i][j].Elem())
			w.Elem().Field(2).Set(reflect.Append(reflect.MakeSlice(reflect.SliceOf(t), 0, 1), h.HotVals[i][(j+1)%3].Elem()))
			vals = append(vals, w)
		}
		h.HotTypes = append(h.HotTypes, wt)
		h.HotVals = append(h.HotVals, vals)
	}
	// twin tag names: one small type per pair, judged now under one name, now under the other
	ownTags := map[int][]string{}
	for i, tw := range c08TwinTags {
		tagN := fmt.Sprintf(`%s:"ge=%d|m_tw%d_n_1" %s:"le=%d|m_tw%d_n_2" valid:"required|m_tw%d_n"`, tw[0], 4+i%3, i, tw[1], 2+i%3, i, i)
		tagS := fmt.Sprintf(`%s:"required|m_tw%d_s_1" %s:"to=2~3|m_tw%d_s_2"`, tw[0], i, tw[1], i)
		t := reflect.StructOf([]reflect.StructField{{Name: "N", Type: gen.TInt, Tag: reflect.StructTag(tagN)}, {Name: "S", Type: gen.TString, Tag: reflect.StructTag(tagS)}})
		vals := []reflect.Value{}
		for j := 0; j < 3; j++ {
			v := reflect.New(t)
			v.Elem().Field(0).SetInt(int64(j * 3)) // 0, 3, 6: the two names disagree on 3 and on 6
			v.Elem().Field(1).SetString([]string{"", "a", "abcd"}[j])
			vals = append(vals, v)
		}
		ownTags[len(h.HotTypes)] = []string{tw[0], tw[1], tw[0], tw[1], "valid"}
		h.HotTypes = append(h.HotTypes, t)
		h.HotVals = append(h.HotVals, vals)
	}
	tagsOf := func(ti int) []string {
		if o, ok := ownTags[ti]; ok {
			return o
		}
		return c08CallTags
	}
	nHot = len(h.HotTypes)
	for i := 0; i < nCold; i++ {
		// distinct tag text => distinct reflect.Type: a cheap way to have more types than any cache holds
		tag := fmt.Sprintf(`valid:"ge=%d|m_cold%d" a:"le=%d|m_colda%d"`, i%7, i, i%5, i)
		t := reflect.StructOf([]reflect.StructField{{Name: "N", Type: gen.TInt, Tag: reflect.StructTag(tag)}})
		v := reflect.New(t)
		v.Elem().Field(0).SetInt(int64(1 + i%9))
		h.ColdTypes = append(h.ColdTypes, t)
		h.ColdVals = append(h.ColdVals, v)
	}
	id := 0
	add := func(c c08Call) {
		c.ID = id
		id++
		h.Calls = append(h.Calls, c)
	}
	hotCall := func(ti int) c08Call {
		t := h.HotTypes[ti]
		c := c08Call{Hot: ti, Cold: -1, Val: rng.Intn(3), Entry: rng.Intn(4), Tag: "valid"}
		if c.Entry <= 1 {
			c.Tag = tagsOf(ti)[rng.Intn(len(tagsOf(ti)))]
		}
		if c.Entry == 1 || c.Entry == 2 {
			c.RM = map[string]string{}
			for f := 0; f < t.NumField(); f++ {
				sf := t.Field(f)
				if sf.PkgPath == "" && !structish(sf.Type) && rng.Intn(2) == 0 {
					c.RM[sf.Name] = gen.RuleList(rng, sf.Type, 2, fmt.Sprintf("o%d_%d", id, f), gen.MsgUnique, false)
					if rng.Intn(2) == 0 {
						if pr := gen.PerturbRules(rng, sf.Tag.Get(c.Tag), sf.Type, fmt.Sprintf("o%d_%d", id, f)); pr != "" {
							c.RM[sf.Name] = pr // same rule keys as the tag, other arguments
						}
					}
				}
			}
		}
		return c
	}
	for r := 0; r < rounds; r++ {
		for k := 0; k < hotBlock; k++ {
			ti := rng.Intn(nHot)
			switch rng.Intn(6) {
			case 5: // the struct dumper looks at the type first (it may be the first to meet it, or the first after an eviction), then the validator
				c1 := hotCall(ti)
				c1.Entry, c1.RM, c1.Tag = 5, nil, "valid"
				c2 := c1
				c2.Entry = []int{0, 3}[rng.Intn(2)]
				if rng.Intn(3) == 0 {
					c2.Tag = tagsOf(ti)[rng.Intn(len(tagsOf(ti)))]
					c2.Entry = 0
				}
				add(c1)
				add(c2)
				k++
			case 0: // A-then-B on the same type
				c1 := hotCall(ti)
				c1.Entry, c1.Tag, c1.RM = 0, tagsOf(ti)[rng.Intn(len(tagsOf(ti)))], nil
				c2 := c1
				c2.Tag = tagsOf(ti)[rng.Intn(len(tagsOf(ti)))]
				add(c1)
				add(c2)
				k++
			case 1: // A-B-A
				c1 := hotCall(ti)
				c1.Entry, c1.RM = 0, nil
				c2 := c1
				if tg := tagsOf(ti); len(tg) != len(c08CallTags) {
					c2.Tag = tg[(indexOf(tg, c1.Tag)+1)%len(tg)] // the twin name
				} else {
					c2.Tag = c08CallTags[(indexOf(c08CallTags, c1.Tag)+1+rng.Intn(len(c08CallTags)-1))%len(c08CallTags)]
				}
				add(c1)
				add(c2)
				add(c1)
				k += 2
			case 3, 4:
				if rng.Intn(3) != 0 {
					add(hotCall(ti))
					break
				}
				// a call with per-call functions under names that occur in the type's own rules
				// (unknown names become resolvable, built-ins are replaced) — then the plain call
				c1 := hotCall(ti)
				c1.Entry, c1.RM = 4, nil
				c1.Tag = tagsOf(ti)[rng.Intn(len(tagsOf(ti)))]
				c1.Fns = c08RuleNames(h.HotTypes[ti], c1.Tag, rng)
				c2 := c1
				c2.Entry, c2.Fns = 0, nil
				add(c1)
				add(c2)
				add(c1)
				k += 2
			case 2: // override, then the plain call
				c1 := hotCall(ti)
				c1.Entry = 1 + rng.Intn(2)
				if c1.Entry == 2 {
					c1.Tag = "valid"
				}
				if c1.RM == nil {
					c1.RM = map[string]string{}
				}
				c2 := c1
				c2.Entry, c2.RM = 0, nil
				add(c1)
				add(c2)
				k++
			default:
				add(hotCall(ti))
			}
		}
		// a sweep over the cold types pushes every hot type out of a bounded cache
		for ci := 0; ci < nCold; ci++ {
			add(c08Call{Hot: -1, Cold: ci, Entry: 0, Tag: []string{"valid", "a"}[(ci+r)%2]})
		}
	}
	return h
}

// c08RuleNames collects rule names used anywhere in the type under the tag (plus two fixed ones).
func c08RuleNames(t reflect.Type, tag string, rng *rand.Rand) []string {
	seen := map[string]bool{}
	var walk func(t reflect.Type, depth int)
	walk = func(t reflect.Type, depth int) {
		for t.Kind() == reflect.Ptr || t.Kind() == reflect.Slice || t.Kind() == reflect.Array {
			t = t.Elem()
		}
		if t.Kind() != reflect.Struct || depth > 3 {
			return
		}
		for i := 0; i < t.NumField(); i++ {
			for _, item := range ref.SplitQuoted(t.Field(i).Tag.Get(tag), ',') {
				name := item
				if k := strings.IndexAny(name, "=|"); k >= 0 {
					name = name[:k]
				}
				if name != "" && name != "either" && name != "botheq" && name != "exist" && name != "required" {
					seen[name] = true
				}
			}
			walk(t.Field(i).Type, depth+1)
		}
	}
	walk(t, 0)
	names := []string{}
	for n := range seen {
		names = append(names, n)
	}
	sort.Strings(names)
	rng.Shuffle(len(names), func(a, b int) { names[a], names[b] = names[b], names[a] })
	if len(names) > 3 {
		names = names[:3]
	}
	return append(names, "phone")
}

func indexOf(s []string, x string) int {
	for i, y := range s {
		if y == x {
			return i
		}
	}
	return 0
}

func (h *c08Hist) typeOf(c c08Call) reflect.Type {
	if c.Hot >= 0 {
		return h.HotTypes[c.Hot]
	}
	return h.ColdTypes[c.Cold]
}

func (h *c08Hist) input(c c08Call) interface{} {
	if c.Hot >= 0 {
		return h.HotVals[c.Hot][c.Val].Interface()
	}
	return h.ColdVals[c.Cold].Interface()
}

func (h *c08Hist) exec(c c08Call) drive.Out {
	in := h.input(c)
	var rm valid.RM
	if c.RM != nil {
		rm = valid.RM{}
		for k, v := range c.RM {
			rm[k] = v
		}
	}
	switch c.Entry {
	case 5:
		return drive.Call(func() error { _ = valid.GetDumpStructStr(in); return nil })
	case 0:
		return drive.Call(func() error { return valid.ValidateStruct(in, c.Tag) })
	case 1:
		return drive.Call(func() error { return valid.StructForFn(in, rm, c.Tag) })
	case 2:
		return drive.Call(func() error { return valid.Struct(in, rm) })
	case 4:
		fns := valid.Name2FnMap{}
		for _, n := range c.Fns {
			fns[n] = markerFn(fmt.Sprintf("fn_call%d_%s", c.ID, n))
		}
		return drive.Call(func() error { return valid.StructForFns(in, rm, fns, c.Tag) })
	}
	return drive.Call(func() error { return valid.Struct(in) })
}

func (c c08Call) describe() string {
	e := []string{"ValidateStruct(v,%q)", "StructForFn(v,rm,%q)", "Struct(v,rm) [tag %q]", "Struct(v) [tag %q]", "StructForFns(v,nil,fns,%q)", "GetDumpStructStr(v) [then tag %q]"}[c.Entry]
	s := fmt.Sprintf(e, c.Tag)
	if c.Hot >= 0 {
		s += fmt.Sprintf(" hot-type#%d value#%d", c.Hot, c.Val)
	} else {
		s += fmt.Sprintf(" cold-type#%d", c.Cold)
	}
	if c.RM != nil {
		s += fmt.Sprintf(" rm=%v", c.RM)
	}
	if c.Fns != nil {
		s += fmt.Sprintf(" per-call functions=%v", c.Fns)
	}
	return s
}

// normText: the clauses of an error as a sorted list (the order of group clauses depends on Go map
// iteration inside the library and is C02's concern, not C08's).
func normText(o drive.Out) string {
	if o.Panic != "" {
		return "PANIC " + o.Panic
	}
	if o.Nil {
		return ""
	}
	return normClauses(o.Err)
}

// ---- cache implementations installed through the public interface

type c08Stats struct {
	mu                                      sync.Mutex
	hits, misses, stores, evictions, reMiss int64
	ever                                    map[interface{}]bool
}

type instrCache struct {
	inner valid.CacheEr
	st    *c08Stats
}

func (c *instrCache) Load(k interface{}) (interface{}, bool) {
	v, ok := c.inner.Load(k)
	c.st.mu.Lock()
	if ok {
		c.st.hits++
	} else {
		c.st.misses++
		if c.st.ever[k] {
			c.st.reMiss++ // analysed before, forgotten since: re-analysis follows
		}
	}
	c.st.mu.Unlock()
	return v, ok
}

func (c *instrCache) Store(k, v interface{}) {
	c.st.mu.Lock()
	c.st.stores++
	c.st.ever[k] = true
	c.st.mu.Unlock()
	c.inner.Store(k, v)
}

type missCache struct{}

func (missCache) Load(interface{}) (interface{}, bool) { return nil, false }
func (missCache) Store(interface{}, interface{})       {}

// amnesiac: an unbounded map that forgets a seeded random subset of its entries on every Store.
type amnesiacCache struct {
	mu  sync.Mutex
	m   map[interface{}]interface{}
	rng *rand.Rand
}

func (a *amnesiacCache) Load(k interface{}) (interface{}, bool) {
	a.mu.Lock()
	defer a.mu.Unlock()
	v, ok := a.m[k]
	return v, ok
}

func (a *amnesiacCache) Store(k, v interface{}) {
	a.mu.Lock()
	defer a.mu.Unlock()
	keys := make([]interface{}, 0, len(a.m))
	for x := range a.m {
		keys = append(keys, x)
	}
	// map order is random: choose victims by count only
	n := 0
	if len(keys) > 0 {
		n = a.rng.Intn(len(keys)/2 + 1)
	}
	for i := 0; i < n; i++ {
		delete(a.m, keys[i])
	}
	a.m[k] = v
}

var c08Configs = []string{"default", "lru512", "lru0", "lru1", "lru2", "lru3", "lru8", "syncmap", "alwaysmiss", "amnesiac", "default-reversed", "default-doubled", "lru2-reversed", "syncmap-reversed", "barelru1", "barelru2", "barelru8"}

func c08Sizes(t core.Tier) (nHot, nCold, rounds, hotBlock int) {
	if t == core.Thorough {
		return 150, 620, 12, 6000
	}
	return 90, 620, 3, 2500
}

func init() {
	core.Register(&core.Prop{
		ID: "C08",
		Rule: "[tag names asked for include the empty name; dump-then-validate pairs: GetDumpStructStr meets a type before the validator does] one seeded call history (hot struct types synthesised with reflect.StructOf carrying independent rule sets under the tag names valid / a / b, 3 values each; patterns A-then-B and A-B-A on one type, override-then-plain, plus sweeps over 620 one-off types that push everything out of a 512-entry cache) is executed unchanged in 17 child processes that differ only in the cache installed through SetStructTypeCache " +
			"(default LRU, NewLRU(512/0/1/2/3/8) instrumented and NewLRU(1/2/8) bare, sync.Map, always-miss, amnesiac) or in the order of the calls (reversed, every call doubled); per call id the sorted clause list must be identical in all children. distinct = distinct (call id, configuration); non-trivial = the call returned at least one clause in the baseline",
		Parent: parentC08,
		Run:    runC08,
		Timeout: func(t core.Tier) time.Duration {
			if t == core.Quick {
				return 4 * time.Minute
			}
			return 40 * time.Minute
		},
		Check: func(r *core.Result, t core.Tier) {
			// workload minimums (what the history contains) are required; cache-internal events
			// (evictions, re-analyses) are reported but only required while the library is seen to
			// use the installed cache at all
			for k, min := range map[string]int64{"syncmap|cross_tag_switches": 500, "override_then_plain_pairs": 100, "calls_compared": 1000} {
				if r.Counters[k] < min {
					r.Inconc(fmt.Sprintf("decisive event under-observed: %s=%d (minimum %d)", k, r.Counters[k], min))
				}
			}
			if r.Counters["syncmap|hits"] > 0 && r.Counters["syncmap|stores"] > 0 {
				for k, min := range map[string]int64{"lru2|evictions": 500, "lru2|remiss_reanalysis": 500, "lru512|evictions": 500, "lru512|remiss_reanalysis": 30} {
					if r.Counters[k] < min {
						r.Inconc(fmt.Sprintf("decisive event under-observed: %s=%d (minimum %d)", k, r.Counters[k], min))
					}
				}
			}
			if r.Counters["alwaysmiss|hits"] != 0 {
				r.Inconc("the always-miss baseline recorded cache hits")
			}
		},
	})
}

func parentC08(p *core.ParentCtx) *core.Result {
	res := p.Res
	res.Assume("SetStructTypeCache is effective once per process, so every cache configuration is a separate child process")
	res.Assume("clauses are compared as a sorted list; values contain no Go maps (iteration order would differ between executions)")
	seeds := []int64{p.Seed}
	if p.Tier == core.Thorough {
		for i := int64(1); i < 4; i++ {
			seeds = append(seeds, p.Seed*1000+i)
		}
	}
	for _, seed := range seeds {
		specs := []core.ChildSpec{}
		for i, cfg := range c08Configs {
			specs = append(specs, core.ChildSpec{Shard: i, Of: len(c08Configs), Mode: "hist", Seed: seed, Args: map[string]string{"cfg": cfg}})
		}
		outs := p.Spawn(specs, 0)
		texts := map[string][]string{}
		rawBase := map[int]string{}
		for _, oc := range outs {
			if oc.Res != nil {
				res.Merge(oc.Res)
			}
			p.Absorb(oc)
			if oc.Res == nil {
				continue
			}
			t, err := c08Load(filepath.Join(oc.WorkDir, "results.jsonl"))
			if err != nil {
				res.Inconc("cannot read results of child " + oc.Spec.Args["cfg"] + ": " + err.Error())
				continue
			}
			texts[oc.Spec.Args["cfg"]] = t
			if oc.Spec.Args["cfg"] == "alwaysmiss" {
				rawBase = c08LoadRaw(filepath.Join(oc.WorkDir, "results.jsonl"))
			}
		}
		base, ok := texts["alwaysmiss"]
		if !ok {
			res.Inconc("no baseline (always-miss child)")
			continue
		}
		nHot, nCold, rounds, hotBlock := c08Sizes(p.Tier)
		h := c08Build(c08Rng(seed), nHot, nCold, rounds, hotBlock)
		if len(base) != len(h.Calls) {
			res.Inconc(fmt.Sprintf("baseline has %d results for %d calls", len(base), len(h.Calls)))
			continue
		}
		// "a struct that carries rule sets for several tag names is always judged by the tag name
		// requested in that call": if every configuration agrees but the history-free result is the
		// one the reference expects under ANOTHER tag name (and not under the requested one), all
		// configurations are equally wrong — invisible to the relational comparison above.
		for pos, call := range h.Calls {
			if call.Hot < 0 || call.Entry == 5 || strings.HasPrefix(base[pos], "PANIC") {
				continue
			}
			raw, okRaw := rawBase[call.ID]
			if !okRaw || strings.HasPrefix(raw, "PANIC") {
				continue
			}
			why := ""
			agrees := func(tag string) bool {
				env := &ref.Env{Tag: tag, Unscoped: call.RM, EmptyTag: tag == ""}
				if call.Fns != nil {
					env.Local = map[string]ref.FnModel{}
					for _, n := range call.Fns {
						env.Local[n] = ref.FnModel{Marker: fmt.Sprintf("fn_call%d_%s", call.ID, n)}
					}
				}
				exps, _ := env.ExpectStruct(h.input(call))
				if env.Unspec {
					return tag == call.Tag // undecided: no complaint about the requested tag, no claim about another
				}
				if len(exps) == 0 {
					return raw == "<nil>"
				}
				if raw == "<nil>" {
					return false
				}
				d := ref.Diff(exps, toActual(clause.Parse(raw)), false)
				if tag == call.Tag {
					why = d.Kind + ": " + d.Detail
				}
				return d.Kind == ""
			}
			res.Count("calls_checked_against_requested_tag")
			if agrees(call.Tag) {
				continue
			}
			res.Count("calls_disagreeing_with_reference_for_requested_tag")
			matched := false
			for _, other := range []string{"valid", "a", "b", "A", "wechatMiniProgramV1", "wechatMiniProgramV2", "xvalid", "xa", "xb", "xA", ""} {
				if other != call.Tag && agrees(other) {
					matched = true
					res.Violate("C08|judged-by-other-tag|all-configurations", fmt.Sprintf("call #%d %s returned %q even with a cache that never remembers anything: that is what the rules under tag %q demand, not those under the requested tag %q (%s); type %s",
						call.ID, call.describe(), trunc(base[pos], 400), other, call.Tag, trunc(why, 300), trunc(h.typeOf(call).String(), 500)),
						map[string]interface{}{"seed": seed, "call": call, "history_free": base[pos], "requested_tag": call.Tag, "matches_tag": other, "type": h.typeOf(call).String(), "value": describeValue(reflect.ValueOf(h.input(call)))})
					break
				}
			}
			if !matched {
				// decided by the reference, and not what the requested tag's rules demand (nor what any
				// single other tag's rules demand): e.g. some fields judged by another key's rules
				res.Violate("C08|not-the-requested-tags-rules|all-configurations", fmt.Sprintf("call #%d %s returned %q even with a cache that never remembers anything; the rules under the requested tag %q demand otherwise (%s); type %s",
					call.ID, call.describe(), trunc(base[pos], 400), call.Tag, trunc(why, 300), trunc(h.typeOf(call).String(), 500)),
					map[string]interface{}{"seed": seed, "call": call, "history_free": base[pos], "requested_tag": call.Tag, "type": h.typeOf(call).String(), "value": describeValue(reflect.ValueOf(h.input(call)))})
			}
		}
		for _, cfg := range c08Configs {
			t, ok := texts[cfg]
			if !ok || cfg == "alwaysmiss" {
				continue
			}
			if len(t) != len(base) {
				res.Inconc(fmt.Sprintf("child %s has %d results, baseline %d", cfg, len(t), len(base)))
				continue
			}
			prevOnType := map[reflect.Type]c08Call{}
			order := c08Order(len(h.Calls), cfg)
			for _, pos := range order {
				call := h.Calls[pos]
				ty := h.typeOf(call)
				prev, had := prevOnType[ty]
				prevOnType[ty] = call
				res.Count("calls_compared")
				if base[pos] != "" {
					res.DistinctEnum(1)
				}
				if t[pos] == base[pos] {
					continue
				}
				class := "other"
				switch {
				case had && prev.Tag != call.Tag:
					class = "after-other-tag"
				case had && prev.RM != nil:
					class = "after-override"
				case had:
					class = "after-same-type"
				}
				// third opinion: the reference validator says which side is wrong
				env := &ref.Env{Tag: call.Tag, Unscoped: call.RM}
				exps, _ := env.ExpectStruct(h.input(call))
				side := "reference agrees with neither"
				if d := ref.Diff(exps, toActual(clause.Parse(base[pos])), false); d.Kind == "" && (base[pos] != "" || len(exps) == 0) {
					side = "reference agrees with the always-miss baseline"
				} else if d := ref.Diff(exps, toActual(clause.Parse(t[pos])), false); d.Kind == "" && (t[pos] != "" || len(exps) == 0) {
					side = "reference agrees with the " + cfg + " child"
				}
				prevDesc := "(first call on this type)"
				if had {
					prevDesc = prev.describe()
				}
				res.Violate("C08|"+strings.SplitN(cfg, "-", 2)[0]+"|"+class,
					fmt.Sprintf("call #%d %s returned %q under cache configuration %s but %q with a cache that never remembers anything; previous call on the same type in that child: %s; %s; type %s",
						call.ID, call.describe(), trunc(t[pos], 500), cfg, trunc(base[pos], 500), prevDesc, side, trunc(ty.String(), 600)),
					map[string]interface{}{"seed": seed, "tier": p.Tier, "config": cfg, "call": call, "previous_call_on_type": prevDesc, "with_cache": t[pos], "history_free": base[pos], "type": ty.String(), "value": describeValue(reflect.ValueOf(h.input(call)))})
			}
		}
		if len(res.Samples) < 3 {
			for _, pos := range []int{0, len(h.Calls) / 3} {
				res.Sample("call", 3, map[string]interface{}{"call": h.Calls[pos].describe(), "type": trunc(h.typeOf(h.Calls[pos]).String(), 300), "result_in_every_child": trunc(base[pos], 300)})
			}
		}
	}
	return res
}

func c08Rng(seed int64) *rand.Rand { return rand.New(rand.NewSource(seed*7919 + 17)) }

// c08LoadRaw returns the raw (unsorted) error texts recorded by the always-miss child.
func c08LoadRaw(path string) map[int]string {
	out := map[int]string{}
	f, err := os.Open(path)
	if err != nil {
		return out
	}
	defer f.Close()
	sc := bufio.NewScanner(f)
	sc.Buffer(make([]byte, 1<<20), 1<<24)
	for sc.Scan() {
		var r struct {
			ID  int    `json:"id"`
			Raw string `json:"r"`
		}
		if json.Unmarshal(sc.Bytes(), &r) == nil {
			out[r.ID] = r.Raw
		}
	}
	return out
}

func c08Load(path string) ([]string, error) {
	f, err := os.Open(path)
	if err != nil {
		return nil, err
	}
	defer f.Close()
	type rec struct {
		ID  int    `json:"id"`
		Txt string `json:"t"`
	}
	var recs []rec
	sc := bufio.NewScanner(f)
	sc.Buffer(make([]byte, 1<<20), 1<<24)
	for sc.Scan() {
		var r rec
		if err := json.Unmarshal(sc.Bytes(), &r); err != nil {
			return nil, err
		}
		recs = append(recs, r)
	}
	max := -1
	for _, r := range recs {
		if r.ID > max {
			max = r.ID
		}
	}
	out := make([]string, max+1)
	seen := make([]bool, max+1)
	for _, r := range recs {
		if seen[r.ID] && out[r.ID] != r.Txt {
			// the same call executed twice in one child (doubled order) with different results
			out[r.ID] = out[r.ID] + " <<second execution differs>> " + r.Txt
			continue
		}
		out[r.ID], seen[r.ID] = r.Txt, true
	}
	return out, sc.Err()
}

// c08Order returns the execution order of call positions for a configuration.
func c08Order(n int, cfg string) []int {
	o := make([]int, 0, 2*n)
	switch {
	case strings.HasSuffix(cfg, "-reversed"):
		for i := n - 1; i >= 0; i-- {
			o = append(o, i)
		}
	case strings.HasSuffix(cfg, "-doubled"):
		for i := 0; i < n; i++ {
			o = append(o, i, i)
		}
	default:
		for i := 0; i < n; i++ {
			o = append(o, i)
		}
	}
	return o
}

func runC08(c *core.Ctx) {
	res := c.Res
	cfg := c.Args["cfg"]
	kind := strings.SplitN(cfg, "-", 2)[0]
	st := &c08Stats{ever: map[interface{}]bool{}}
	var inner valid.CacheEr
	switch {
	case kind == "default":
	case strings.HasPrefix(kind, "barelru"):
		// the library's own *LRUCache handed over as it is (not wrapped, no callback of ours): code
		// that special-cases *LRUCache in SetStructTypeCache is only reached this way
		n, _ := strconv.Atoi(kind[7:])
		valid.SetStructTypeCache(valid.NewLRU(n))
	case strings.HasPrefix(kind, "lru"):
		n, _ := strconv.Atoi(kind[3:])
		l := valid.NewLRU(n)
		l.SetDelCallBackFn(func(k, v interface{}) { st.evictions++ }) // called under the cache's own lock
		inner = l
	case kind == "syncmap":
		inner = new(sync.Map)
	case kind == "alwaysmiss":
		inner = missCache{}
	case kind == "amnesiac":
		inner = &amnesiacCache{m: map[interface{}]interface{}{}, rng: c.Rng("amnesiac")}
	}
	if inner != nil {
		valid.SetStructTypeCache(&instrCache{inner: inner, st: st})
	}
	nHot, nCold, rounds, hotBlock := c08Sizes(c.Tier)
	h := c08Build(c08Rng(c.Seed), nHot, nCold, rounds, hotBlock)
	f, err := os.Create(filepath.Join(c.WorkDir, "results.jsonl"))
	if err != nil {
		res.Inconc("cannot create result file: " + err.Error())
		return
	}
	w := bufio.NewWriterSize(f, 1<<20)
	enc := json.NewEncoder(w)
	prevOnType := map[reflect.Type]c08Call{}
	for _, pos := range c08Order(len(h.Calls), cfg) {
		call := h.Calls[pos]
		c.Journal("%s call #%d %s", cfg, call.ID, call.describe())
		ty := h.typeOf(call)
		if prev, ok := prevOnType[ty]; ok {
			if prev.Tag != call.Tag && !strings.Contains(cfg, "-") {
				res.Count(kind + "|cross_tag_switches")
			}
			if prev.RM != nil && call.RM == nil && cfg == "syncmap" {
				res.Count("override_then_plain_pairs")
			}
		}
		prevOnType[ty] = call
		out := h.exec(call)
		res.Eval()
		rec := map[string]interface{}{"id": call.ID, "t": normText(out)}
		if cfg == "alwaysmiss" {
			rec["r"] = out.String() // the raw text, clause order intact (for the comparison with the reference)
		}
		enc.Encode(rec)
	}
	w.Flush()
	f.Close()
	if strings.Contains(cfg, "-") {
		return // the order variants share their counters' names with the plain configuration
	}
	if kind == "default" || strings.HasPrefix(kind, "barelru") {
		return // these cache objects are not instrumented; lru512 / lruN are the same caches, instrumented
	}
	res.Count(kind+"|hits", st.hits)
	res.Count(kind+"|misses", st.misses)
	res.Count(kind+"|stores", st.stores)
	res.Count(kind+"|evictions", st.evictions)
	res.Count(kind+"|remiss_reanalysis", st.reMiss)
}
