package props

import (
	"fmt"
	"net/url"
	"reflect"
	"strings"

	"gitee.com/xuesongtao/protoc-go-valid/valid"
	"vmon/internal/clause"
	"vmon/internal/core"
	"vmon/internal/drive"
	"vmon/internal/gen"
	"vmon/internal/ref"
)

// C03 — required means present and non-empty; all other rules skip empty values.
// The cross product field type x emptiness state x rule x form x entry point is enumerated.

type c03S struct {
	A string
	N int
}

type c03State struct {
	Name string
	V    reflect.Value
}

func c03States() map[string][]c03State {
	five, zero := 5, 0
	s, es := "x", ""
	f := 1.5
	fz := 0.0
	pz, pn := &c03S{}, &c03S{A: "a"}
	var nilS *c03S
	m := map[string][]c03State{}
	add := func(states ...c03State) { m[states[0].V.Type().String()] = states }
	st := func(n string, v interface{}) c03State { return c03State{n, reflect.ValueOf(v)} }
	add(st("zero", ""), st("nonzero", "ab"), st("nonzero", "13540042617"), st("nonzero", "测试"))
	add(st("zero", false), st("nonzero", true))
	add(st("zero", int8(0)), st("nonzero", int8(3)), st("nonzero", int8(-2)))
	add(st("zero", int16(0)), st("nonzero", int16(7)), st("nonzero", int16(256)))
	add(st("zero", int32(0)), st("nonzero", int32(1)))
	add(st("zero", int64(0)), st("nonzero", int64(9)), st("nonzero", int64(1)<<32), st("nonzero", int64(-1)<<63))
	add(st("zero", int(0)), st("nonzero", int(2)))
	add(st("zero", uint8(0)), st("nonzero", uint8(3)))
	add(st("zero", uint16(0)), st("nonzero", uint16(1)))
	add(st("zero", uint32(0)), st("nonzero", uint32(8)))
	add(st("zero", uint64(0)), st("nonzero", uint64(2)), st("nonzero", uint64(1)<<63), st("nonzero", uint64(1)<<32))
	add(st("zero", uint(0)), st("nonzero", uint(5)))
	// numbers too small for the next narrower type are supplied values all the same (1e-46 is 0 as a float32)
	add(st("zero", float32(0)), st("nonzero", float32(1.5)), st("nonzero", float32(1e-45)))
	add(st("zero", float64(0)), st("nonzero", 2.25), st("nonzero", -1.0), st("nonzero", 1e-46), st("nonzero", -3e-60), st("nonzero", 5e-324))
	add(st("nil", []int(nil)), st("empty", []int{}), st("nonzero", []int{1, 1}), st("nonzero", []int{0}))
	add(st("nil", []string(nil)), st("empty", []string{}), st("nonzero", []string{"a", "b"}), st("nonzero", []string{""}))
	add(st("nil", []float64(nil)), st("empty", []float64{}), st("nonzero", []float64{0.5}))
	add(st("empty", [0]int{}))
	add(st("zero", [2]int{}), st("nonzero", [2]int{1, 2}))
	add(st("zero", [2]string{}), st("nonzero", [2]string{"a", "a"}))
	add(st("nil", map[string]int(nil)), st("empty", map[string]int{}), st("nonzero", map[string]int{"a": 0}))
	add(st("nil", map[int]string(nil)), st("empty", map[int]string{}), st("nonzero", map[int]string{1: "a"}))
	add(st("zero", c03S{}), st("nonzero", c03S{A: "a"}))
	add(st("nil", nilS), st("ptr-to-zero", pz), st("nonzero", pn))
	add(st("nil", (**c03S)(nil)), st("ptr-to-nil", &nilS), st("nonzero", &pn))
	add(st("nil", (*int)(nil)), st("ptr-to-zero", &zero), st("nonzero", &five))
	add(st("nil", (*string)(nil)), st("ptr-to-zero", &es), st("nonzero", &s))
	add(st("nil", (*float64)(nil)), st("ptr-to-zero", &fz), st("nonzero", &f))
	add(st("nil", []c03S(nil)), st("empty", []c03S{}), st("nonzero", []c03S{{}}))
	add(st("nil", []*c03S(nil)), st("empty", []*c03S{}), st("nonzero", []*c03S{pn, nil}))
	add(st("nil", map[string]c03S(nil)), st("empty", map[string]c03S{}), st("nonzero", map[string]c03S{"k": {A: "a"}}))
	return m
}

// fixed-argument rule per key for a kind (the first candidate with that key)
func c03RulesFor(t reflect.Type) []string {
	switch t.Kind() {
	case reflect.String:
		return []string{"to=1~3", "ge=3", "le=1", "oto=1~3", "gt=2", "lt=2", "eq=3", "noeq=2", "in=(a/b)", "include=(zz)", "prefix=zz", "suffix=zz", "phone", "email", "idcard", "ip", "ipv4", "ipv6",
			"year", "year2month", "date", "datetime", "int", "ints", "float", "re='^z+$'", "unique", "json", "file", "dir"}
	case reflect.Bool:
		return []string{"in=(false)", "in=(x)"}
	case reflect.Int, reflect.Int8, reflect.Int16, reflect.Int32, reflect.Int64, reflect.Uint, reflect.Uint8, reflect.Uint16, reflect.Uint32, reflect.Uint64:
		return []string{"to=4~6", "ge=10", "le=-1", "oto=4~6", "gt=10", "lt=1", "eq=100", "noeq=3", "in=(100/200)", "int"}
	case reflect.Float32, reflect.Float64:
		return []string{"to=4~6", "ge=10", "le=-2", "oto=4~6", "gt=10", "lt=-1", "eq=100", "noeq=3", "in=(100/200)", "float"}
	case reflect.Slice:
		if gen.TInt == t.Elem() || gen.TString == t.Elem() || gen.TFloat64 == t.Elem() {
			return []string{"to=3~6", "ge=3", "le=0", "oto=3~6", "gt=3", "lt=1", "eq=5", "noeq=1", "unique", "ints"}
		}
	case reflect.Array:
		if t.Len() > 0 {
			return []string{"unique", "ints"}
		}
	}
	return nil
}

func init() {
	core.Register(&core.Prop{
		ID: "C03",
		Rule: "complete cross product: 33 field types (string, bool, all int/uint widths, floats, slices nil/empty/populated, arrays incl. [0]T, maps, struct value, *struct, **struct, pointers to scalars, slices/maps of structs) x their emptiness states x every rule applicable to the kind as 'R', 'required,R', 'R,required' and 'required' alone x entry points {struct tag, struct RM, struct field between time.Time / string / integer neighbours, Var, map[string]T, map[string]interface{}, []map, Url} " +
			"+ map/URL key absent / present-empty / present-non-empty / duplicated / given without an equals sign / next to empty pieces (?&k=v, a=1&&k=v, k=v&); verdict compared with the reference (required iff empty; no clause from any other rule on an empty value). distinct = distinct (type, state, rule text, entry point), all enumerated; non-trivial = value empty or rule list contains required",
		Exhaustive: func(t core.Tier) bool { return true },
		Shards:     func(t core.Tier) int { return 8 },
		Run:        runC03,
		Check: func(r *core.Result, t core.Tier) {
			for _, k := range []string{"state|zero", "state|nil", "state|empty", "state|nonzero", "state|ptr-to-zero", "carrier|struct-tag", "carrier|struct-rm", "carrier|struct-ctx", "carrier|var", "carrier|map", "carrier|slice-map", "carrier|url-enc", "absent_key_cases"} {
				if r.Counters[k] < 10 {
					r.Inconc(fmt.Sprintf("class under-observed: %s=%d", k, r.Counters[k]))
				}
			}
			if r.Counters["empty_value_other_rule_cases"] < 500 {
				r.Inconc("too few (empty value, non-required rule) cases")
			}
		},
	})
}

func runC03(c *core.Ctx) {
	res := c.Res
	res.Assume("empty = zero value of the type, or slice/array/map of length 0; for map and URL inputs a missing key or empty value")
	all := c03States()
	names := []string{}
	for k := range all {
		names = append(names, k)
	}
	sortStrings(names)
	fs := func(string) (bool, bool, bool) { return true, false, false } // paths used here do not exist
	n := 0
	for _, tn := range names {
		states := all[tn]
		t := states[0].V.Type()
		rules := c03RulesFor(t)
		forms := []string{"required", "required|m_req"}
		for _, r := range rules {
			forms = append(forms, r, r+"|m_r", "required,"+r, r+",required|m_req", "required|必_req,"+r+"|m_r")
		}
		for _, st := range states {
			for _, text := range forms {
				for _, cr := range []string{drive.StructTag, drive.StructRM, drive.StructCtx, drive.Var, drive.MapT, drive.MapIface, drive.SliceMap, drive.UrlEnc} {
					n++
					if !c.Mine(n) {
						continue
					}
					c03One(res, cr, t, st, text, fs)
				}
			}
		}
	}
	// ---- random: empty and non-empty values inside nested objects (half of all nodes empty)
	rng := c.Rng("nested")
	seq := 0
	plan := tagPlan{TagNames: []string{"valid"}, Style: gen.MsgUnique, MaxRules: 3, seq: &seq}
	to := c02TypeOpts(plan)
	R := c.Pick(1500, 25000)
	for i := 0; i < R; i++ {
		t := gen.RandStruct(rng, to)
		v := tunedFill(rng, t, "valid", 0.5)
		env := &ref.Env{Tag: "valid"}
		in := ptrTo(v).Interface()
		exps, entryErr := env.ExpectStruct(in)
		out := drive.Call(func() error { return valid.Struct(in) })
		if judged, _ := compareCall(res, "C03|nested", "", out, exps, entryErr, env, true, vWitness{Entry: "Struct", Type: trunc(t.String(), 1200), Value: describeValue(v)}); judged {
			res.Count("nested_random_cases")
			res.Distinct(t.String() + "|" + describeValue(v))
		}
	}

	// ---- keys absent / empty / duplicated for map and URL inputs
	k := 0
	for _, text := range []string{"required", "required|m_req", "required,to=1~3|m_r", "to=1~3|m_r,required|必_req", "phone|m_r", "to=2~3"} {
		for _, shape := range []string{"absent", "empty", "nonempty", "dup-empty-first", "dup-empty-last", "absent-among-others", "no-query", "bare-after-value", "bare-only", "nil-map", "raw-equals-in-value", "amp-leading", "amp-double-before", "amp-double-after", "amp-trailing", "after-bad-escape", "after-truncated-escape", "after-question-mark"} {
			for _, keyName := range []string{"a", "ids[]", "姓名", "first name", "a+b"} {
				k++
				if !c.Mine(k) {
					continue
				}
				c03Absent(res, text, shape, keyName)
			}
		}
	}
}

func sortStrings(s []string) {
	for i := 1; i < len(s); i++ {
		for j := i; j > 0 && s[j] < s[j-1]; j-- {
			s[j], s[j-1] = s[j-1], s[j]
		}
	}
}

func varSupports(t reflect.Type) bool {
	for t.Kind() == reflect.Slice || t.Kind() == reflect.Array {
		t = t.Elem()
	}
	switch t.Kind() {
	case reflect.String, reflect.Bool, reflect.Int, reflect.Int8, reflect.Int16, reflect.Int32, reflect.Int64, reflect.Uint, reflect.Uint8, reflect.Uint16, reflect.Uint32, reflect.Uint64, reflect.Float32, reflect.Float64:
		return true
	}
	return false
}

func isScalarKind(k reflect.Kind) bool {
	switch k {
	case reflect.String, reflect.Bool, reflect.Int, reflect.Int8, reflect.Int16, reflect.Int32, reflect.Int64, reflect.Uint, reflect.Uint8, reflect.Uint16, reflect.Uint32, reflect.Uint64, reflect.Float32, reflect.Float64:
		return true
	}
	return false
}

func c03One(res *core.Result, cr string, t reflect.Type, st c03State, text string, fs ref.FSOracle) {
	v := st.V
	env := &ref.Env{Tag: "valid", FS: fs}
	var exps []ref.Exp
	entryErr := false
	switch cr {
	case drive.StructTag, drive.StructRM, drive.StructCtx:
		if cr == drive.StructTag && !drive.TagSafe(text) {
			return
		}
		if cr == drive.StructCtx && (!varSupports(t) || v.Kind() == reflect.Ptr) {
			return // the neighbour carrier folds twin clauses by their one-segment path
		}
		// the reference walks the same one-field struct
		var stt reflect.Type
		if cr == drive.StructTag {
			stt = reflect.StructOf([]reflect.StructField{{Name: "F", Type: t, Tag: reflect.StructTag(`valid:"` + text + `"`)}})
		} else {
			stt = drive.OneFieldType(t)
			env.Unscoped = map[string]string{"F": text}
		}
		obj := reflect.New(stt)
		obj.Elem().Field(0).Set(v)
		exps, entryErr = env.ExpectStruct(obj.Interface())
	case drive.Var:
		if !varSupports(t) {
			return
		}
		if v.Kind() == reflect.Ptr {
			return
		}
		exps = env.ExpectVar(v, text)
	case drive.MapT, drive.SliceMap, drive.MapIface:
		if !isScalarKind(t.Kind()) {
			return
		}
		prefix := ""
		if cr == drive.SliceMap {
			prefix = "[0]"
		}
		env.Begin()
		env.ExpectFlat([]ref.FlatEntry{{Key: "k", Val: v}}, map[string]string{"k": text}, func(k string) string { return prefix + "map[" + k + "]" }, prefix, true, nil)
		exps = env.Finish()
	case drive.UrlEnc:
		if t.Kind() != reflect.String {
			return
		}
		env.Begin()
		env.ExpectFlat([]ref.FlatEntry{{Key: "k", Val: v}}, map[string]string{"k": text}, func(k string) string { return k }, "", false, nil)
		exps = env.Finish()
	}
	out, ok := drive.Carry(cr, v, text)
	if !ok {
		return
	}
	res.Count("state|" + st.Name)
	res.Count("carrier|" + cr)
	empty := ref.Empty(v)
	if empty && !strings.HasPrefix(text, "required") && !strings.Contains(text, ",required") {
		res.Count("empty_value_other_rule_cases")
	}
	class := ""
	if cr == drive.MapIface {
		class = "interface-element"
	}
	wit := vWitness{Entry: cr, Type: t.String(), Value: st.Name + " " + describeValue(v), Rules: text}
	sigp := "C03|" + cr
	if cr == drive.MapIface {
		sigp = "C03|map-iface" // one finding for the carrier (elements judged as kind Interface)
		// collapse to the direction only
		judged, agreed := compareCallCoarse(res, sigp, out, exps, env, wit)
		if judged && (empty || strings.Contains(text, "required")) {
			res.DistinctEnum(1)
		}
		_ = agreed
		return
	}
	if judged, _ := compareCall(res, sigp, class, out, exps, entryErr, env, true, wit); judged {
		if empty || strings.Contains(text, "required") {
			res.DistinctEnum(1)
		}
		if empty && len(exps) == 0 && out.Nil {
			res.Count("empty_value_silently_skipped")
		}
		res.Sample(cr+"/"+st.Name, 1, map[string]interface{}{"carrier": cr, "type": t.String(), "state": st.Name, "rules": text, "library_returned": trunc(out.String(), 200), "expected": expStrings(exps)})
	}
}

// compareCallCoarse reports only the direction of a disagreement (used for a carrier with an open finding).
func compareCallCoarse(res *core.Result, sigPrefix string, out drive.Out, exps []ref.Exp, env *ref.Env, wit vWitness) (judged, agreed bool) {
	if env.Unspec {
		res.Count("skipped_unspecified")
		return false, false
	}
	res.Eval()
	wit.Library = out.String()
	wit.Expected = expStrings(exps)
	switch {
	case out.Panic != "":
		res.Violate(sigPrefix+"|panic", fmt.Sprintf("%s: panic %s; rules %v value %s", wit.Entry, out.Panic, wit.Rules, wit.Value), wit)
	case len(exps) > 0 && out.Nil:
		res.Violate(sigPrefix+"|lib-accepts", fmt.Sprintf("%s: returned nil, expected %v; rules %v value %s", wit.Entry, wit.Expected, wit.Rules, wit.Value), wit)
	case len(exps) == 0 && !out.Nil:
		res.Violate(sigPrefix+"|lib-rejects", fmt.Sprintf("%s: returned %s, expected nil; rules %v value %s", wit.Entry, trunc(out.Err, 300), wit.Rules, wit.Value), wit)
	default:
		return true, true
	}
	return true, false
}

// keyName is the parameter / map key the rule is attached to (names that need percent-encoding in a
// URL included).
func c03Absent(res *core.Result, text, shape, keyName string) {
	rules := map[string]string{keyName: text}
	rm := valid.RM{keyName: text}
	type kv struct{ k, v string }
	var params []kv
	switch shape {
	case "absent":
		params = []kv{{"b", "x"}}
	case "empty":
		params = []kv{{keyName, ""}}
	case "nonempty":
		params = []kv{{keyName, "ab"}}
	case "dup-empty-first":
		params = []kv{{keyName, ""}, {keyName, "ab"}}
	case "dup-empty-last":
		params = []kv{{keyName, "abcd"}, {keyName, ""}}
	case "absent-among-others":
		params = []kv{{"b", "1"}, {"c", ""}, {"d", "a"}}
	case "no-query":
		params = nil
	case "bare-after-value": // "?b=abcd&<key>": the parameter is present without '=' (an empty entry)
		params = []kv{{"b", "abcd"}, {keyName, "\x00bare"}}
	case "bare-only":
		params = []kv{{keyName, "\x00bare"}}
	case "amp-leading": // "?&<key>=ab": empty pieces between separators are no parameters and end nothing
		params = []kv{{"\x00emptypair", ""}, {keyName, "ab"}}
	case "amp-double-before":
		params = []kv{{"b", "x"}, {"\x00emptypair", ""}, {keyName, "ab"}}
	case "amp-double-after":
		params = []kv{{keyName, ""}, {"\x00emptypair", ""}, {"\x00emptypair", ""}, {"b", "x"}}
	case "amp-trailing":
		params = []kv{{keyName, "abcd"}, {"\x00emptypair", ""}}
	case "after-bad-escape": // "?sig=%zz&<key>=ab": a parameter that cannot be decoded does not hide the ones after it
		params = []kv{{"\x00rawpiece", "sig=%zz"}, {keyName, "ab"}}
	case "after-question-mark": // a literal '?' inside an earlier value: the query starts after the FIRST '?' and goes to the end
		params = []kv{{"\x00rawpiece", "b=/home?tab=1"}, {keyName, "ab"}}
	case "after-truncated-escape":
		params = []kv{{"b", "x"}, {"\x00rawpiece", "sig=a%2"}, {keyName, "abcd"}, {"\x00rawpiece", "%=1"}}
	case "nil-map":
		params = nil // the map input is a nil map: every key is missing
	case "raw-equals-in-value":
		// "?<key>=YWJjZA==": a raw '=' inside the value. What the value is cut to is not documented,
		// but it is supplied and non-empty; only required is judged on it
		if !strings.HasPrefix(text, "required") || strings.Contains(text, ",") {
			return
		}
		params = []kv{{keyName, "\x00raweq"}}
	}
	res.Count("absent_key_cases")
	// URL
	if shape != "nil-map" {
		q := []string{}
		entries := []ref.FlatEntry{}
		for _, p := range params {
			if p.k == "\x00rawpiece" {
				q = append(q, p.v)
				continue
			}
			if p.k == "\x00emptypair" {
				q = append(q, "")
				continue
			}
			if p.v == "\x00bare" {
				q = append(q, url.QueryEscape(p.k))
				entries = append(entries, ref.FlatEntry{Key: p.k, Val: reflect.ValueOf("")})
				continue
			}
			if p.v == "\x00raweq" {
				q = append(q, url.QueryEscape(p.k)+"=YWJjZA==")
				entries = append(entries, ref.FlatEntry{Key: p.k, Val: reflect.ValueOf("YWJjZA==")})
				continue
			}
			q = append(q, url.QueryEscape(p.k)+"="+url.QueryEscape(p.v))
			entries = append(entries, ref.FlatEntry{Key: p.k, Val: reflect.ValueOf(p.v)})
		}
		u := "http://h.example/p"
		if shape != "no-query" {
			u += "?" + strings.Join(q, "&")
		}
		env := &ref.Env{}
		env.Begin()
		env.ExpectFlat(entries, rules, func(k string) string { return k }, "", false, nil)
		exps := env.Finish()
		out := drive.Call(func() error { return valid.Url(u, rm) })
		if strings.HasPrefix(shape, "after-") && !out.Nil && out.Panic == "" {
			// the undecodable pieces are reported by clauses of their own (C13: an error, never a
			// crash); what is judged here is every other parameter
			kept, bad := []string{}, 0
			for _, part := range strings.Split(out.Err, clause.Sep) {
				if strings.HasPrefix(strings.TrimSpace(part), "url unescape is failed") {
					bad++
					continue
				}
				kept = append(kept, part)
			}
			res.Count("undecodable_parameter_clauses", int64(bad))
			out = drive.Out{Err: strings.Join(kept, clause.Sep), Nil: len(kept) == 0}
		}
		if judged, _ := compareCall(res, "C03|url-keys", shape+c03KeyClass(keyName), out, exps, false, env, true, vWitness{Entry: "Url", Value: u, Rules: rules}); judged {
			res.DistinctEnum(1)
		}
	}
	// map (no duplicates in a map)
	if !strings.HasPrefix(shape, "dup") && shape != "no-query" && !strings.HasPrefix(shape, "bare") && !strings.HasPrefix(shape, "amp-") && !strings.HasPrefix(shape, "after-") && shape != "raw-equals-in-value" {
		m := map[string]string{}
		if shape == "nil-map" {
			m = nil
		}
		entries := []ref.FlatEntry{}
		for _, p := range params {
			m[p.k] = p.v
			entries = append(entries, ref.FlatEntry{Key: p.k, Val: reflect.ValueOf(p.v)})
		}
		if shape == "absent" || shape == "absent-among-others" {
			// a slice of two maps: the key is present (non-empty) in the FIRST element and missing in
			// the second — each element is judged on its own
			first := map[string]string{keyName: "ab", "b": "x"}
			in2 := []map[string]string{first, m}
			env := &ref.Env{}
			env.Begin()
			e0 := []ref.FlatEntry{{Key: keyName, Val: reflect.ValueOf("ab")}, {Key: "b", Val: reflect.ValueOf("x")}}
			env.ExpectFlat(e0, rules, func(k string) string { return "[0]map[" + k + "]" }, "[0]", true, []ref.OrdKey{{N: 0}})
			env.ExpectFlat(entries, rules, func(k string) string { return "[1]map[" + k + "]" }, "[1]", true, []ref.OrdKey{{N: 1}})
			exps := env.Finish()
			out := drive.Call(func() error { return valid.Map(in2, rm) })
			if judged, _ := compareCall(res, "C03|map-keys", shape+"|second-of-two"+c03KeyClass(keyName), out, exps, false, env, true, vWitness{Entry: "Map", Value: fmt.Sprint(in2), Rules: rules}); judged {
				res.DistinctEnum(1)
			}
		}
		for _, slice := range []bool{false, true} {
			env := &ref.Env{}
			env.Begin()
			prefix := ""
			var in interface{} = m
			if slice {
				prefix = "[0]"
				in = []map[string]string{m}
			} else if shape == "nil-map" && len(keyName)%2 == 0 {
				in = &m // pointer to a nil map
			}
			env.ExpectFlat(entries, rules, func(k string) string { return prefix + "map[" + k + "]" }, prefix, true, nil)
			exps := env.Finish()
			out := drive.Call(func() error { return valid.Map(in, rm) })
			if judged, _ := compareCall(res, "C03|map-keys", shape+c03KeyClass(keyName), out, exps, false, env, true, vWitness{Entry: "Map", Value: fmt.Sprint(in), Rules: rules}); judged {
				res.DistinctEnum(1)
			}
		}
	}
}

func c03KeyClass(k string) string {
	if k == "a" {
		return ""
	}
	return "|key-needs-encoding"
}
