package props

import (
	"bytes"
	"crypto/sha256"
	"fmt"
	"math/rand"
	"os"
	"os/exec"
	"path/filepath"
	"regexp"
	"sort"
	"strings"
	"time"

	"vmon/internal/core"
	"vmon/internal/gen"
	"vmon/internal/ref"
)

// C06 / C07 / C19 — the tag injector (library entry points and the built CLI).

type injRun struct {
	Mode     string
	ExitCode int
	Output   string // combined stdout+stderr of the CLI (or the recovered panic for the library mode)
	Crashed  bool
}

// runInjector applies the injector to dir in the given mode. names are the files to process
// for the per-file modes (lib, -f).
func runInjector(c *core.Ctx, mode, dir string, names []string) injRun {
	r := injRun{Mode: mode}
	switch mode {
	case "lib":
		// the library route lives in a helper program (cmd/libinject) built by run.sh; when it could not be
		// built against the repository (the file package's signatures changed) the files go through -f
		helper := os.Getenv("VMON_LIBINJECT")
		if helper == "" {
			c.Res.Count("lib_route_unavailable_used_-f")
			return runInjector(c, "-f", dir, names)
		}
		args := []string{}
		for _, n := range names {
			if strings.HasSuffix(n, ".go") {
				args = append(args, filepath.Join(dir, n))
			}
		}
		if len(args) == 0 {
			return r
		}
		cmd := exec.Command(helper, args...)
		var buf bytes.Buffer
		cmd.Stdout, cmd.Stderr = &buf, &buf
		done := make(chan error, 1)
		if err := cmd.Start(); err != nil {
			return injRun{Mode: mode, ExitCode: -1, Output: err.Error(), Crashed: true}
		}
		go func() { done <- cmd.Wait() }()
		select {
		case err := <-done:
			r.Output = buf.String()
			if err != nil {
				r.Crashed = true // the helper recovers panics; dying all the same is a fatal error of the runtime
				r.Output += "\nlibrary helper died: " + err.Error()
			}
		case <-time.After(120 * time.Second):
			cmd.Process.Kill()
			<-done
			return injRun{Mode: mode, ExitCode: -2, Output: "watchdog: library helper did not finish within 120s"}
		}
		if strings.Contains(r.Output, "panic in library call") || strings.Contains(r.Output, "fatal error:") {
			r.Crashed = true
		}
		r.Output = trunc(r.Output, 3000)
		return r
	case "-f":
		for _, n := range names {
			one := runCLI(c, "-f", filepath.Join(dir, n))
			if one.ExitCode != 0 || one.Crashed {
				r.ExitCode, r.Crashed = one.ExitCode, one.Crashed
				r.Output += one.Output
			}
		}
		return r
	case "-d":
		return runCLI(c, "-d", dir)
	case "-p":
		return runCLI(c, "-p", filepath.Join(dir, "*.go"))
	case "-p*":
		return runCLI(c, "-p", filepath.Join(dir, "*"))
	}
	return r
}

func runCLI(c *core.Ctx, flag, arg string) injRun {
	cmd := exec.Command(c.CLI, flag, arg)
	var buf bytes.Buffer
	cmd.Stdout = &buf
	cmd.Stderr = &buf
	done := make(chan error, 1)
	if err := cmd.Start(); err != nil {
		return injRun{Mode: flag, ExitCode: -1, Output: err.Error(), Crashed: true}
	}
	go func() { done <- cmd.Wait() }()
	var err error
	select {
	case err = <-done:
	case <-time.After(60 * time.Second):
		cmd.Process.Kill()
		<-done
		return injRun{Mode: flag, ExitCode: -2, Output: "watchdog: CLI did not finish within 60s", Crashed: false}
	}
	r := injRun{Mode: flag, Output: buf.String()}
	if err != nil {
		if ee, ok := err.(*exec.ExitError); ok {
			r.ExitCode = ee.ExitCode()
		} else {
			r.ExitCode = -1
		}
	}
	if strings.Contains(r.Output, "panic:") || strings.Contains(r.Output, "fatal error:") || strings.Contains(r.Output, "goroutine 1 [running]") {
		r.Crashed = true
	}
	if len(r.Output) > 4000 {
		i := strings.Index(r.Output, "panic:")
		if i < 0 {
			i = 0
		}
		end := i + 3000
		if end > len(r.Output) {
			end = len(r.Output)
		}
		r.Output = r.Output[i:end]
	}
	return r
}

// injectorCrashed: the tool died (panic text, killed, an exit status of 2 or more), or it reported
// failure (exit status 1) although every .go file it was given can be processed. An exit status of
// 1 next to a file that cannot be processed is a report, not a crash.
func injectorCrashed(run injRun, anyUnprocessable bool) bool {
	return run.Crashed || run.ExitCode < 0 || run.ExitCode >= 2 || (run.ExitCode == 1 && !anyUnprocessable)
}

func anyClass(classes map[string]string, cl string) bool {
	for _, c := range classes {
		if c == cl {
			return true
		}
	}
	return false
}

func readAll(dir string, names []string) map[string][]byte {
	out := map[string][]byte{}
	for _, n := range names {
		b, err := os.ReadFile(filepath.Join(dir, n))
		if err == nil {
			out[n] = b
		}
	}
	return out
}

var injModes = []string{"lib", "-f", "-d", "-p"}

type injWitness struct {
	Mode   string `json:"mode"`
	Class  string `json:"class"`
	File   string `json:"file"`
	Before string `json:"before"`
	After  string `json:"after"`
	Output string `json:"cli_output,omitempty"`
}

func init() {
	core.Register(&core.Prop{
		ID: "C06",
		Rule: "seeded generator of valid Go source files in 7 labelled shape classes (G1 protoc-gen-go shape, G2 many structs with other declarations interleaved, G3 key override/add/both, G4 non-ASCII, G5 values with $ \\ % and regex text, G6 multi-name/embedded/multi-line anonymous struct//* */ comments/generics/irregular spacing, G7 one-line anonymous struct containing a tag literal) plus real-world sources (protoc-gen-go output found in the module cache and standard-library files, annotated by the harness on fields of top-level struct declarations that have a conventional tag literal and no trailing comment: class RW; as they are: RW0), each processed by the library entry points and by the built CLI with -f, -d and -p (for lib / -f / -d also inside directories whose names contain glob or shell characters: [ ] * ? { } blank quote CJK); " +
			"oracle: go/parser + hand-written tag scanner compute the expected merged key list per annotated field, every byte outside the annotated fields' tag literals must be unchanged, output must parse. distinct = distinct file content; non-trivial = file with >=1 annotated field",
		Shards: func(t core.Tier) int { return 16 },
		Run:    runC06,
		Check: func(r *core.Result, t core.Tier) {
			for _, cl := range gen.SrcClasses {
				for _, m := range injModes {
					if r.Counters["files|"+cl+"|"+m] < 5 {
						r.Inconc(fmt.Sprintf("class x mode under-observed: %s %s = %d", cl, m, r.Counters["files|"+cl+"|"+m]))
					}
				}
			}
			if r.Counters["real_world_corpus_files"] >= 100 {
				rw := int64(0)
				for _, m := range injModes {
					rw += r.Counters["files|RW|"+m]
				}
				if rw < 30 {
					r.Inconc(fmt.Sprintf("real-world corpus available but only %d annotated real-world files processed", rw))
				}
			}
			if r.Counters["annotated_fields_after_offset_shift"] < 200 {
				r.Inconc("too few annotated fields located after an earlier rewrite changed the file length")
			}
		},
	})
	core.Register(&core.Prop{
		ID:     "C07",
		Rule:   "the C06 corpus (all shape classes and the real-world sources) plus annotation-free files, comments repeating a key and the parseable-but-awkward shapes of C19 (grouped / local type declarations, missing literals, malformed @tag text); run histories of length 2-5 whose steps are drawn from {library call, CLI -f, -d, -p}; the bytes after run n+1 must equal the bytes after run n (n>=1) and annotation-free files must never change. distinct = distinct file content; non-trivial = file modified by run 1 (idempotence is not vacuous)",
		Shards: func(t core.Tier) int { return 16 },
		Run:    runC07,
		Check: func(r *core.Result, t core.Tier) {
			if r.Counters["files"] == 0 || r.Counters["annotated_files_modified_by_run1"]*100 < r.Counters["annotated_files"]*90 {
				r.Inconc(fmt.Sprintf("too few annotated files modified by the first run: %d of %d", r.Counters["annotated_files_modified_by_run1"], r.Counters["annotated_files"]))
			}
			if r.Counters["annotation_free_files"] < 100 {
				r.Inconc("fewer than 100 annotation-free files")
			}
		},
	})
	core.Register(&core.Prop{
		ID: "C19",
		Rule: "directories of 2-12 entries mixing valid annotated files, unannotated files, faulty .go files (syntax error, truncated, empty, binary junk), parseable-but-awkward files (@tag on a field without tag literal, malformed @tag text, comments merely mentioning @tag, grouped/local/alias/generic types, interpreted-string and empty tag literals, @tag values containing a backquote, a carriage return inside a raw tag literal, whole files with CRLF line endings, files starting with a UTF-8 byte order mark, trailing block comments that span several lines), non-Go files containing annotated Go text, sub-directories, hidden entries (.gitkeep, .DS_Store, ._x.pb.go, .idea/) and a directory named x.go, real-world files (standard library incl. testdata that does not parse, protoc-gen-go output; pristine or annotated), with faulty files sorting first/middle/last; processed by the CLI with -f, -d, -p. " +
			"oracle: exit status 0 and no panic text, unprocessable files byte-identical, every parseable .go file equals the C06 merge. distinct = distinct directory content hash; non-trivial = directory with >=1 faulty or awkward entry and >=1 processable annotated file",
		Shards: func(t core.Tier) int { return 16 },
		Parent: func(p *core.ParentCtx) *core.Result {
			res := core.DefaultParent(p)
			if p.Tier == core.Thorough {
				runFuzzTargets(res, "C19", []string{"FuzzInject"}) // coverage-guided: arbitrary bytes named *.go through ParseFile + WriteFile
			}
			return res
		},
		Run: runC19,
		Check: func(r *core.Result, t core.Tier) {
			if r.Counters["dirs_faulty_precedes_2_processable"] < 100 {
				r.Inconc(fmt.Sprintf("too few directories in which a faulty file precedes >=2 processable ones: %d", r.Counters["dirs_faulty_precedes_2_processable"]))
			}
			for _, k := range []string{"fault|syntax", "fault|truncated", "fault|empty", "fault|binary", "awkward|no-literal", "awkward|malformed-tag", "awkward|grouped", "awkward|interpreted-literal", "awkward|empty-literal", "awkward|backquote-value", "awkward|cr-in-literal", "awkward|crlf", "awkward|bom", "awkward|multiline-block", "dotfile", "nongo", "subdir", "dir-named-go"} {
				if r.Counters[k] < 20 {
					r.Inconc(fmt.Sprintf("entry kind under-observed: %s=%d", k, r.Counters[k]))
				}
			}
		},
	})
}

var reTagFirstItem = regexp.MustCompile("@tag (\\w+):\"([^\"`]*)\"")

// oddDirNames: legal directory names that mean something to a glob or a shell. A directory given
// with -d (or a file path given with -f) is a path, not a pattern.
var oddDirNames = []string{"pb[v1]", "gen[1-3]", "a b", "生成", "x*y", "q?", "{a,b}", "d'q", "tab\there", "[", "pb.go"}

func c06Batch(c *core.Ctx, rng *rand.Rand, batch int, withFree bool, oddDir bool) (dir string, names []string, classes map[string]string, before map[string][]byte) {
	dir = filepath.Join(c.WorkDir, fmt.Sprintf("b%d", batch))
	if oddDir && batch%3 == 0 {
		dir = filepath.Join(c.WorkDir, fmt.Sprintf("b%d", batch), oddDirNames[(batch/3)%len(oddDirNames)])
	}
	os.RemoveAll(dir)
	os.MkdirAll(dir, 0o755)
	n := 1 + rng.Intn(8)
	classes = map[string]string{}
	for i := 0; i < n; i++ {
		cl := gen.SrcClasses[rng.Intn(len(gen.SrcClasses))]
		if withFree && rng.Intn(5) == 0 {
			cl = "G0"
		}
		src, _ := gen.GenGoFile(rng, gen.SrcOpts{Class: cl})
		if withFree && rng.Intn(6) == 0 {
			// idempotence only (C07): comments that repeat a key — outside C06's domain (which value
			// wins is not documented), but a second run must still change nothing
			src = reTagFirstItem.ReplaceAllString(src, `@tag $1:"$2" $1:"again"`)
			cl = "G8rep"
		} else if withFree && rng.Intn(8) == 0 {
			// idempotence only (C07): keys with a hyphen or a dot (x-order, yaml.v3) — whatever the tool reads as the key,
			// it reads the same thing in the comment and in the literal it wrote
			src = reTagFirstItem.ReplaceAllString(src, `@tag $1:"$2" x-order:"1" yaml.v3:"n"`)
			cl = "G8hyph"
		}
		if withFree && rng.Intn(7) == 0 {
			// idempotence only (C07): the parseable-but-awkward shapes of C19 (grouped and local type
			// declarations, fields without a literal, malformed @tag text, backquote values ...)
			k := []string{"no-literal", "malformed-tag", "grouped", "grouped", "interpreted-literal", "empty-literal", "backquote-value", "cr-in-literal", "crlf", "bom", "bom", "multiline-block", "odd-literal", "odd-literal", "line-directive", "dup-key-literal", "dup-key-literal", "no-literal"}[rng.Intn(18)]
			src, cl = c19Awkward(rng, k), "AWK"+k
		}
		name := fmt.Sprintf("f%02d_%s.pb.go", i, strings.ToLower(cl))
		os.WriteFile(filepath.Join(dir, name), []byte(src), 0o644)
		names = append(names, name)
		classes[name] = cl
	}
	if batch%5 == 2 {
		// a generated file of more than a mebibyte (large .proto packages produce them): annotated fields before and
		// after the 1 MiB mark, an annotation-free bulk in between — or no annotation at all
		head := "package pb\n\ntype Head struct {\n\tName string `json:\"name\"` // 姓名 @tag valid:\"required\"\n}\n\n"
		tail := "type Tail struct {\n\tAge int32 `json:\"age,omitempty\"` // @tag valid:\"to=1~150\" form:\"age\"\n\tNote string `json:\"note\"`\n}\n"
		cl := "BIG"
		if withFree && rng.Intn(2) == 0 {
			head, tail, cl = "package pb\n\ntype Head struct {\n\tName string `json:\"name\"`\n}\n\n", "type Tail struct {\n\tAge int32 `json:\"age,omitempty\"`\n}\n", "BIG0"
		}
		var sb strings.Builder
		sb.WriteString(head)
		for k := 0; sb.Len() < 1<<20+4096+rng.Intn(5000); k++ {
			fmt.Fprintf(&sb, "// Filler%d 占位: file_proto_rawDesc would sit here\nvar filler%d = \"%s\"\n\n", k, k, strings.Repeat("\\x0a\\x12", 400))
		}
		sb.WriteString(tail)
		name := fmt.Sprintf("f%02d_%s.pb.go", n, strings.ToLower(cl))
		os.WriteFile(filepath.Join(dir, name), []byte(sb.String()), 0o644)
		names = append(names, name)
		classes[name] = cl
	}
	// real-world sources: protoc-gen-go output from the module cache and standard-library files,
	// annotated by the harness (class RW) or as they are (class RW0)
	if pb, std := gen.RealCorpus(); len(pb)+len(std) > 0 && rng.Intn(2) == 0 {
		for k := 0; k < 1+rng.Intn(2); k++ {
			var path string
			if len(pb) > 0 && (len(std) == 0 || rng.Intn(3) != 0) {
				path = pb[rng.Intn(len(pb))]
			} else {
				path = std[rng.Intn(len(std))]
			}
			src := gen.ReadReal(path)
			if src == nil {
				continue
			}
			cl := "RW0"
			if _, err := ref.AnalyzeGo(src); err != nil {
				cl = "RWbad" // testdata that does not parse: must be left alone (C19)
			} else if out, n := gen.AnnotateReal(rng, src); n > 0 && rng.Intn(5) != 0 {
				src, cl = out, "RW"
			}
			name := fmt.Sprintf("r%02d_%s_%s", k, strings.ToLower(cl), filepath.Base(path))
			os.WriteFile(filepath.Join(dir, name), src, 0o644)
			names = append(names, name)
			classes[name] = cl
			c.Journal("real-world file %s as %s (%s)", path, name, cl)
		}
	}
	before = readAll(dir, names)
	return
}

func runC06(c *core.Ctx) {
	res := c.Res
	res.Assume("domain as stated: backquoted tag literals in conventional key:\"value\" form, values non-empty without double quote, one or more trailing comments on the field (items merged in order), keys \\w+, distinct keys per comment, top-level ungrouped type declarations")
	res.Assume("go/parser is trusted; spacing inside a rewritten tag literal is not constrained")
	rng := c.Rng("inject")
	if pb, std := gen.RealCorpus(); c.Shard == 0 {
		res.Count("real_world_corpus_files", int64(len(pb)+len(std)))
		if len(pb)+len(std) < 100 {
			res.Assume("no real-world corpus found (go env GOMODCACHE / GOROOT): generated sources only")
		}
	}
	B := c.Pick(120, 2500)
	for b := 0; b < B; b++ {
		mode := injModes[b%len(injModes)]
		dir, names, classes, before := c06Batch(c, rng, b, false, mode != "-p")
		if filepath.Base(filepath.Dir(dir)) != filepath.Base(c.WorkDir) {
			res.Count("directories_with_glob_or_shell_characters")
		}
		c.Journal("C06 batch %d mode %s files %v", b, mode, names)
		run := runInjector(c, mode, dir, names)
		after := readAll(dir, names)
		if injectorCrashed(run, anyClass(classes, "RWbad")) {
			res.Violate("C06|injector-crashed|"+mode, fmt.Sprintf("injector %s exit=%d crashed=%v: %s", mode, run.ExitCode, run.Crashed, trunc(run.Output, 600)), injWitness{Mode: mode, Output: run.Output})
		}
		for _, n := range names {
			res.Eval()
			cl := classes[n]
			res.Count("files|" + cl + "|" + mode)
			if cl == "RWbad" {
				if !bytes.Equal(before[n], after[n]) {
					res.Violate("C06|unparseable-file-changed|"+cl, fmt.Sprintf("%s changed a real-world file that does not parse: %s", mode, firstDiffLine(before[n], after[n])), injWitness{Mode: mode, Class: cl, File: n})
				}
				continue
			}
			probs, ann, shifted := ref.CheckInjection(before[n], after[n])
			res.Count("annotated_fields", int64(ann))
			res.Count("annotated_fields_after_offset_shift", int64(shifted))
			if ann > 0 {
				res.Distinct(string(before[n]))
			}
			for _, p := range probs {
				if p.Kind == "input-does-not-parse" {
					res.Inconc("generator produced a file that does not parse: " + p.Detail + "\n" + string(before[n]))
					continue
				}
				res.Violate("C06|"+p.Kind+"|"+cl, fmt.Sprintf("%s on a %s file: %s: %s", mode, cl, p.Kind, p.Detail),
					injWitness{Mode: mode, Class: cl, File: n, Before: string(before[n]), After: string(after[n])})
			}
			if b < 2 && len(probs) == 0 && ann > 0 {
				res.Sample("file", 1, map[string]interface{}{"class": cl, "mode": mode, "annotated_fields": ann, "excerpt_after": firstAnnotatedLine(string(after[n]))})
			}
		}
		os.RemoveAll(dir)
	}
}

func firstAnnotatedLine(s string) string {
	for _, l := range strings.Split(s, "\n") {
		if strings.Contains(l, "@tag ") && strings.Contains(l, "`") {
			return strings.TrimSpace(l)
		}
	}
	return ""
}

func runC07(c *core.Ctx) {
	res := c.Res
	res.Assume("idempotence is judged independently of correctness (C06)")
	rng := c.Rng("idem")
	B := c.Pick(60, 1200)
	for b := 0; b < B; b++ {
		dir, names, classes, before := c06Batch(c, rng, b, true, false)
		steps := 2 + rng.Intn(4)
		hist := []string{}
		prev := before
		var first map[string][]byte
		for s := 0; s < steps; s++ {
			mode := injModes[rng.Intn(len(injModes))]
			hist = append(hist, mode)
			c.Journal("C07 batch %d step %d mode %s", b, s, mode)
			run := runInjector(c, mode, dir, names)
			cur := readAll(dir, names)
			if injectorCrashed(run, anyClass(classes, "RWbad")) {
				res.Violate("C07|injector-crashed|"+mode, fmt.Sprintf("injector %s exit=%d: %s", mode, run.ExitCode, trunc(run.Output, 600)), injWitness{Mode: mode, Output: run.Output})
			}
			if s == 0 {
				first = cur
			} else {
				for _, n := range names {
					if !bytes.Equal(cur[n], prev[n]) {
						res.Violate("C07|not-idempotent|"+classes[n], fmt.Sprintf("run %d (%s) changed a %s file already processed by %v; first differing line: %s", s+1, mode, classes[n], hist[:s], firstDiffLine(prev[n], cur[n])),
							injWitness{Mode: strings.Join(hist, ","), Class: classes[n], File: n, Before: string(prev[n]), After: string(cur[n])})
					}
				}
			}
			prev = cur
		}
		for _, n := range names {
			res.Eval()
			res.Count("files")
			fields, _ := ref.AnalyzeGo(before[n])
			ann := 0
			for _, f := range fields {
				if f.Annotated() {
					ann++
				}
			}
			if ann == 0 {
				res.Count("annotation_free_files")
				if !bytes.Equal(before[n], prev[n]) && !anyTouchable(fields) {
					res.Violate("C07|annotation-free-file-changed|"+classes[n], fmt.Sprintf("a file without @tag annotations changed after %v: %s", hist, firstDiffLine(before[n], prev[n])),
						injWitness{Mode: strings.Join(hist, ","), Class: classes[n], File: n, Before: string(before[n]), After: string(prev[n])})
				}
			} else {
				res.Count("annotated_files")
				if !bytes.Equal(before[n], first[n]) {
					res.Count("annotated_files_modified_by_run1")
					res.Distinct(string(before[n]))
				}
			}
		}
		res.Count("histories")
		res.Count("history_steps", int64(steps))
		if b == 0 {
			res.Sample("history", 1, map[string]interface{}{"files": len(names), "modes": hist})
		}
		os.RemoveAll(dir)
	}
}

func anyTouchable(fs []ref.GoField) bool {
	for _, f := range fs {
		if f.Touchable() {
			return true
		}
	}
	return false
}

func firstDiffLine(a, b []byte) string {
	la, lb := strings.Split(string(a), "\n"), strings.Split(string(b), "\n")
	for i := 0; i < len(la) && i < len(lb); i++ {
		if la[i] != lb[i] {
			return fmt.Sprintf("line %d: %q -> %q", i+1, trunc(la[i], 200), trunc(lb[i], 200))
		}
	}
	return fmt.Sprintf("length %d -> %d lines", len(la), len(lb))
}

// ---------------------------------------------------------------------------------------
// C19

type c19Entry struct {
	Name      string
	Kind      string // processable, plain, fault|*, awkward|*, nongo, subdir, dir-named-go
	Content   []byte
	Parses    bool
	Annotated bool
	IsDir     bool
	SubFiles  map[string][]byte
}

func c19Awkward(rng *rand.Rand, kind string) string {
	base := "package pb\n\ntype Inner struct {\n\tID int64 `json:\"id\"`\n}\n\n"
	good := "type Good struct {\n\tName string `json:\"name\"` // 姓名 @tag valid:\"required\"\n}\n\n"
	switch kind {
	case "line-directive":
		// positions after a //line directive carry another file name (a sibling that exists, one that does
		// not, no name at all); the bytes to rewrite are still this file's
		d := []string{"//line grammar.y:12", "//line zz_long.y:1", "/*line grammar.y:3:4*/", "//line :7", "//line no_such_file.y:100", "//line zz_long.y:40:2"}[rng.Intn(6)]
		if rng.Intn(2) == 0 {
			return base + d + "\ntype A struct {\n\tName string `json:\"name\"` // 姓名 @tag valid:\"required\"\n\tAge  int32 `json:\"age\"` // @tag valid:\"to=1~150\" form:\"age\"\n}\n\n" + good
		}
		return base + "type A struct {\n\tName string `json:\"name\"` // 姓名 @tag valid:\"required\"\n" + d + "\n\tAge  int32 `json:\"age\"` // @tag valid:\"to=1~150\" form:\"age\"\n}\n\n" + good
	case "dup-key-literal":
		// idempotence only: a literal that already repeats a key (hand-merged, or written by another tool); whichever
		// occurrence the tool rewrites, it must be done after one run
		f := []string{
			"\tName string `json:\"name,omitempty\" json:\"nick\"` // @tag json:\"name\"\n",
			"\tName string `json:\"b\" db:\"x\" json:\"c\"` // @tag db:\"y\" json:\"z\"\n",
			"\tName string `valid:\"required\" json:\"n\" valid:\"to=1~3\"` // @tag valid:\"ge=1\" form:\"n\"\n",
			"\tName string `json:\"a\" json:\"a\"` // @tag json:\"a\"\n",
			"\tName string `json:\"a\" json:\"b\" json:\"c\"` // @tag json:\"c\"\n",
		}[rng.Intn(5)]
		return base + "type A struct {\n" + f + "\tAge  int32 `json:\"age\"` // @tag valid:\"ge=0\"\n}\n\n" + good
	case "no-literal":
		if rng.Intn(2) == 0 {
			// ... with a remark after the pairs, in a block comment, before and after fields that have a literal
			kv := []string{"valid:\"required\"", "valid:\"to=1~50\" form:\"size\"", "json:\"n,omitempty\""}[rng.Intn(3)]
			cm := []string{"// @tag " + kv + " 每页条数", "/* @tag " + kv + " */", "// 备注 @tag " + kv + " // more", "/* 每页 @tag " + kv + " */ // x", "// @tag " + kv + "  "}[rng.Intn(5)]
			if rng.Intn(2) == 0 {
				return base + "type A struct {\n\tAge  int32 `json:\"age\"` // @tag valid:\"to=1~150\"\n\tSize int32 " + cm + "\n}\n\n" + good
			}
			return base + "type A struct {\n\tSize int32 " + cm + "\n\tAge  int32 `json:\"age\"` // @tag valid:\"to=1~150\"\n\tLast string " + cm + "\n}\n\n" + good
		}
		return base + "type A struct {\n\tName string // 姓名 @tag valid:\"required\"\n\tAge  int32 `json:\"age\"` // @tag valid:\"to=1~150\"\n}\n\n" + good
	case "malformed-tag":
		forms := []string{"@tag valid:required", "@tag :\"x\"", "@tag valid:\"", "@tag", "@tag valid:\"a\" @tag json:\"b\"", "@tagvalid:\"x\"", "@tag  ", "@tag desc:\"C:\\tmp\\", "@tag a:\"1\" b:\"x\\"}
		return base + "type A struct {\n\tName string `json:\"name\"` // " + forms[rng.Intn(len(forms))] + "\n\tAge int32 `json:\"age\"` // @tag valid:\"ge=0\"\n}\n\n" + good
	case "grouped":
		if rng.Intn(3) == 0 {
			return base + "type ()\n\nvar ()\n\nconst ()\n\n" + good // empty groups are valid Go
		}
		return base + "type (\n\tA struct {\n\t\tName string `json:\"name\"` // @tag valid:\"required\"\n\t}\n\tB struct {\n\t\tAge int `json:\"age\"` // @tag valid:\"ge=0\"\n\t}\n)\n\nfunc f() {\n\ttype local struct {\n\t\tX int `json:\"x\"` // @tag valid:\"required\"\n\t}\n\t_ = local{}\n}\n\ntype Al = Inner\n\ntype G[T any] struct {\n\tV T `json:\"v\"` // @tag valid:\"required\"\n}\n\n" + good
	case "backquote-value":
		v := []string{"a`b", "`", "re='^`+$'", "x` json:`"}[rng.Intn(4)]
		if rng.Intn(2) == 0 {
			// the unprocessable field comes AFTER ordinary annotated fields (areas are applied from the end)
			return base + "type A struct {\n\tFirst string `json:\"first,omitempty\"` // @tag valid:\"required,to=1~30\"\n\tAge  int32 `json:\"age\"` // @tag valid:\"ge=0\"\n\tName string `json:\"name\"` // @tag valid:\"" + v + "\"\n\tLast string `json:\"last\"` // @tag valid:\"le=9\"\n}\n\n" + good
		}
		return base + "type A struct {\n\tName string `json:\"name\"` // @tag valid:\"" + v + "\"\n\tAge  int32 `json:\"age\"` // @tag valid:\"ge=0\"\n}\n\n" + good
	case "interpreted-literal":
		// also combined with comments that mention @tag but carry no key:"value" pair
		cm := []string{"@tag valid:\"required\"", "@tag required", "see the @tag docs for details", "@tag valid:required"}[rng.Intn(4)]
		return base + "type A struct {\n\tName string \"json:\\\"name\\\"\" // " + cm + "\n}\n\n" + good
	case "cr-in-literal":
		// a carriage return inside a raw tag literal is legal Go (the scanner drops it from the value)
		lit := []string{"`json:\"name\"\r`", "`json:\"name\" \r\nxml:\"n\"`", "`\rjson:\"name\"`"}[rng.Intn(3)]
		return base + "type A struct {\n\tName string " + lit + " // @tag valid:\"required\"\n\tAge  int32 `json:\"age\"` // @tag valid:\"ge=0\"\n}\n\n" + good
	case "multiline-block":
		// a trailing block comment that spans several lines: the annotation is what follows "@tag " up to
		// the end of THAT line (possibly nothing)
		cm := []string{
			"/* 备注 @tag valid:\"required\"\n\t   second line */",
			"/* see @tag \n\t   valid:\"required\" */",
			"/* @tag\n*/",
			"/* @tag v\n*/",
			"/* @tag valid:\"ge=1\" json:\"n\"\n\n\t*/",
			"/*\n\t @tag valid:\"required\" */",
		}[rng.Intn(6)]
		return base + "type A struct {\n\tName string `json:\"name\"` " + cm + "\n\tAge  int32 `json:\"age\"` // @tag valid:\"ge=0\"\n}\n\n" + good
	case "odd-literal":
		// tag literals that are legal Go but not in conventional form: an unbalanced quote, a lone key,
		// blanks only, a colon without quotes (whatever the tool makes of them, it makes it once)
		lit := []string{"`db:\"name`", "`json`", "`   `", "`json:name`", "`a:\"1\" b:\"2`", "`:\"x\"`", "`json:\"a\"\"`"}[rng.Intn(7)]
		return base + "type A struct {\n\tName string " + lit + " // @tag valid:\"required\"\n\tAge  int32 `json:\"age\"` // @tag valid:\"ge=0\"\n}\n\n" + good
	case "bom":
		// a UTF-8 byte order mark in front of the package clause is legal Go
		src, _ := gen.GenGoFile(rng, gen.SrcOpts{Class: []string{"G1", "G3", "G0"}[rng.Intn(3)]})
		return "\xef\xbb\xbf" + src
	case "crlf":
		// the whole file with Windows line endings
		src, _ := gen.GenGoFile(rng, gen.SrcOpts{Class: []string{"G1", "G3", "G6"}[rng.Intn(3)]})
		return strings.ReplaceAll(src, "\n", "\r\n")
	case "empty-literal":
		cm := []string{"@tag valid:\"required\"", "@tag required", "see the @tag docs for details", "@tag :\"x\""}[rng.Intn(4)]
		return base + "type A struct {\n\tName string `` // " + cm + "\n\tE struct{} // @tag valid:\"exist\"\n}\n\ntype Empty struct{}\n\n" + good
	}
	return base + good
}

func runC19(c *core.Ctx) {
	res := c.Res
	res.Assume("files inside sub-directories are only required not to be corrupted (the tool does not document recursion)")
	res.Assume("an annotated field is one with a backquoted tag literal and at least one well-formed @tag item; anything else with a tag literal must keep its keys")
	rng := c.Rng("dirs")
	D := c.Pick(100, 2000)
	modes := []string{"-d", "-p", "-f", "-d", "-p*"}
	awk := []string{"no-literal", "malformed-tag", "grouped", "interpreted-literal", "empty-literal", "backquote-value", "cr-in-literal", "crlf", "bom", "multiline-block", "line-directive"}
	for d := 0; d < D; d++ {
		dir := filepath.Join(c.WorkDir, fmt.Sprintf("d%d", d))
		if m := modes[d%len(modes)]; (m == "-d" || m == "-f") && d%4 == 1 {
			dir = filepath.Join(dir, oddDirNames[(d/4)%len(oddDirNames)]) // a path is not a pattern
			res.Count("directories_with_glob_or_shell_characters")
		}
		os.RemoveAll(dir)
		os.MkdirAll(dir, 0o755)
		n := 2 + rng.Intn(10)
		entries := []c19Entry{}
		// names sort as written: a prefix letter decides the position of faulty entries
		for i := 0; i < n; i++ {
			prefix := string(rune('a' + rng.Intn(26)))
			name := fmt.Sprintf("%s%02d", prefix, i)
			e := c19Entry{}
			pbFiles, stdFiles := gen.RealCorpus()
			switch r := rng.Intn(20); {
			case r < 3 && len(pbFiles)+len(stdFiles) > 0 && i%3 == 0:
				// a real-world file as it is (standard library incl. its unparseable testdata, protoc-gen-go
				// output), or annotated by the harness
				var path string
				if len(pbFiles) > 0 && (len(stdFiles) == 0 || rng.Intn(2) == 0) {
					path = pbFiles[rng.Intn(len(pbFiles))]
				} else {
					path = stdFiles[rng.Intn(len(stdFiles))]
				}
				src := gen.ReadReal(path)
				_, perr := ref.AnalyzeGo(src)
				e = c19Entry{Name: name + "_" + filepath.Base(path), Kind: "real-world", Content: src, Parses: perr == nil}
				if perr != nil {
					e.Kind = "real-world|unparseable"
				} else if out, k := gen.AnnotateReal(rng, src); k > 0 && rng.Intn(2) == 0 {
					e.Content, e.Kind, e.Annotated = out, "processable", true
					res.Count("real-world|annotated")
				}
				c.Journal("C19 real-world file %s as %s", path, e.Name)
			case r >= 17 && i%4 == 1:
				// hidden entries (they sort before every ordinary name): .gitkeep, .DS_Store, an AppleDouble
				// companion "._x.pb.go" (junk with a .go suffix), a hidden directory
				switch rng.Intn(4) {
				case 0:
					e = c19Entry{Name: ".gitkeep", Kind: "dotfile", Content: []byte{}}
				case 1:
					junk := make([]byte, 32+rng.Intn(100))
					rng.Read(junk)
					e = c19Entry{Name: ".DS_Store", Kind: "dotfile", Content: junk}
				case 2:
					junk := make([]byte, 32+rng.Intn(100))
					rng.Read(junk)
					e = c19Entry{Name: "._" + name + ".pb.go", Kind: "dotfile", Content: append([]byte("\x00\x05\x16\x07"), junk...)}
				default:
					e = c19Entry{Name: ".idea" + name, Kind: "dotfile", IsDir: true, SubFiles: map[string][]byte{"w.xml": []byte("<x/>")}}
				}
				for _, o := range entries {
					if o.Name == e.Name {
						e.Name += name
					}
				}
			case r < 6:
				cl := gen.SrcClasses[rng.Intn(len(gen.SrcClasses))]
				src, ann := gen.GenGoFile(rng, gen.SrcOpts{Class: cl})
				e = c19Entry{Name: name + ".pb.go", Kind: "processable", Content: []byte(src), Parses: true, Annotated: ann > 0}
			case r < 8:
				src, _ := gen.GenGoFile(rng, gen.SrcOpts{Class: "G0"})
				e = c19Entry{Name: name + ".go", Kind: "plain", Content: []byte(src), Parses: true}
			case r < 12:
				src, _ := gen.GenGoFile(rng, gen.SrcOpts{Class: "G1"})
				b := []byte(src)
				switch rng.Intn(4) {
				case 0:
					// break the syntax at a random token
					pos := bytes.Index(b, []byte("struct {"))
					if pos < 0 {
						pos = len(b) / 2
					}
					b = append(append(append([]byte{}, b[:pos]...), []byte("struct struct {{ ")...), b[pos:]...)
					e = c19Entry{Name: name + ".go", Kind: "fault|syntax", Content: b}
				case 1:
					e = c19Entry{Name: name + ".pb.go", Kind: "fault|truncated", Content: b[:len(b)*(1+rng.Intn(8))/10]}
				case 2:
					e = c19Entry{Name: name + ".go", Kind: "fault|empty", Content: []byte{}}
				default:
					junk := make([]byte, 64+rng.Intn(400))
					rng.Read(junk)
					e = c19Entry{Name: name + ".go", Kind: "fault|binary", Content: junk}
				}
			case r < 16:
				k := awk[rng.Intn(len(awk))]
				e = c19Entry{Name: name + ".go", Kind: "awkward|" + k, Content: []byte(c19Awkward(rng, k)), Parses: true, Annotated: true}
			case r < 18:
				src, _ := gen.GenGoFile(rng, gen.SrcOpts{Class: "G3"})
				ext := []string{".txt", ".go.bak", ".proto", ".golang", ""}[rng.Intn(5)]
				e = c19Entry{Name: name + ext, Kind: "nongo", Content: []byte(src)}
				if len(entries) > 0 && rng.Intn(2) == 0 {
					// a neighbour of an existing entry whose name is that entry's name plus a suffix an editor,
					// a tool or a careless "atomic write" would use
					prev := entries[rng.Intn(len(entries))]
					if !prev.IsDir {
						e.Name = prev.Name + []string{".tmp", "~", ".bak", ".orig", ".swp", ".new", ".1"}[rng.Intn(7)]
						for _, o := range entries {
							if o.Name == e.Name {
								e.Name += "x"
							}
						}
					}
				}
			case r < 19:
				src, _ := gen.GenGoFile(rng, gen.SrcOpts{Class: "G1"})
				e = c19Entry{Name: name + "_sub", Kind: "subdir", IsDir: true, SubFiles: map[string][]byte{"inner.pb.go": []byte(src), "note.txt": []byte("x")}}
			default:
				e = c19Entry{Name: name + ".go", Kind: "dir-named-go", IsDir: true, SubFiles: map[string][]byte{"k.txt": []byte("@tag valid:\"required\"")}}
			}
			entries = append(entries, e)
		}
		for _, e := range entries {
			if e.Kind == "awkward|line-directive" {
				// the siblings the directives name: a short one and one longer than any offset in the Go file
				entries = append(entries, c19Entry{Name: "grammar.y", Kind: "nongo", Content: []byte("%%\n")},
					c19Entry{Name: "zz_long.y", Kind: "nongo", Content: []byte(strings.Repeat("rule : token `x` ; // @tag valid:\"required\"\n", 60))})
				res.Count("dirs_with_line_directive_siblings")
				break
			}
		}
		if d%6 == 5 {
			// a crowd of entries that are not Go files (notes, data, images): each is looked at and left alone
			for k := 0; k < 9+rng.Intn(8); k++ {
				entries = append(entries, c19Entry{Name: fmt.Sprintf("%c%02d_note.%s", 'a'+rune(rng.Intn(26)), 50+k, []string{"txt", "md", "json", "png"}[k%4]), Kind: "nongo", Content: []byte(fmt.Sprintf("note %d // @tag valid:\"required\"\n", k))})
			}
			res.Count("dirs_with_many_non_go_files")
		}
		sort.Slice(entries, func(i, j int) bool { return entries[i].Name < entries[j].Name })
		h := sha256.New()
		for _, e := range entries {
			p := filepath.Join(dir, e.Name)
			if e.IsDir {
				os.MkdirAll(p, 0o755)
				for sn, sb := range e.SubFiles {
					os.WriteFile(filepath.Join(p, sn), sb, 0o644)
				}
			} else {
				os.WriteFile(p, e.Content, 0o644)
			}
			h.Write([]byte(e.Name))
			h.Write(e.Content)
			kind := e.Kind
			res.Count(strings.TrimPrefix(kind, ""))
		}
		// truncated files may still parse; decide "parses" with go/parser itself
		for i := range entries {
			if strings.HasPrefix(entries[i].Kind, "fault|") {
				_, err := ref.AnalyzeGo(entries[i].Content)
				entries[i].Parses = err == nil
			}
		}
		faultSeen, procAfter := false, 0
		hasFault, hasProc := false, false
		for _, e := range entries {
			if e.IsDir {
				continue
			}
			bad := (strings.HasPrefix(e.Kind, "fault|") && !e.Parses) || e.Kind == "awkward|no-literal"
			if bad {
				faultSeen, hasFault = true, true
			}
			if strings.HasPrefix(e.Kind, "awkward|") {
				hasFault = true
			}
			if e.Kind == "processable" && e.Annotated {
				hasProc = true
				if faultSeen {
					procAfter++
				}
			}
		}
		if procAfter >= 2 {
			res.Count("dirs_faulty_precedes_2_processable")
		}
		mode := modes[d%len(modes)]
		names := []string{}
		for _, e := range entries {
			if !e.IsDir {
				names = append(names, e.Name)
			}
		}
		c.Journal("C19 dir %d mode %s entries %d", d, mode, len(entries))
		run := runInjector(c, mode, dir, names)
		res.Eval()
		res.Count("dirs|" + mode)
		if hasFault && hasProc {
			res.DistinctHash(uint64FromHash(h.Sum(nil)))
		}
		listing := []string{}
		for _, e := range entries {
			listing = append(listing, e.Name+"("+e.Kind+")")
		}
		if injectorCrashed(run, c19AnyUnprocessable(entries)) {
			cause := "other"
			for _, e := range entries {
				if e.Kind == "awkward|no-literal" {
					cause = "field-without-literal"
				}
			}
			res.Violate("C19|cli-crashed|"+cause, fmt.Sprintf("CLI %s exit=%d crashed=%v on directory %v: %s", mode, run.ExitCode, run.Crashed, listing, trunc(run.Output, 500)),
				map[string]interface{}{"mode": mode, "entries": listing, "output": run.Output})
		}
		for _, e := range entries {
			p := filepath.Join(dir, e.Name)
			if e.IsDir {
				for sn, sb := range e.SubFiles {
					got, err := os.ReadFile(filepath.Join(p, sn))
					if err != nil {
						res.Violate("C19|subdir-file-lost", fmt.Sprintf("%s/%s disappeared", e.Name, sn), listing)
						continue
					}
					if !bytes.Equal(got, sb) {
						if probs, _, _ := ref.CheckInjection(sb, got); len(probs) > 0 || !strings.HasSuffix(sn, ".go") {
							res.Violate("C19|subdir-file-corrupted", fmt.Sprintf("%s/%s changed: %s", e.Name, sn, firstDiffLine(sb, got)), listing)
						}
					}
				}
				continue
			}
			got, err := os.ReadFile(p)
			if err != nil {
				res.Violate("C19|file-lost", fmt.Sprintf("%s (%s) disappeared", e.Name, e.Kind), listing)
				continue
			}
			isGo := strings.HasSuffix(e.Name, ".go")
			switch {
			case !isGo || !e.Parses:
				if !bytes.Equal(got, e.Content) {
					k := "non-go-file-changed"
					if isGo {
						k = "unparseable-file-changed"
					}
					res.Violate("C19|"+k+"|"+e.Kind, fmt.Sprintf("%s (%s) must stay byte-identical but changed: %s (mode %s)", e.Name, e.Kind, firstDiffLine(e.Content, got), mode),
						injWitness{Mode: mode, Class: e.Kind, File: e.Name, Before: string(e.Content), After: string(got)})
				}
				res.Count("unprocessable_checked")
			default:
				probs, ann, _ := ref.CheckInjection(e.Content, got)
				res.Count("processable_checked")
				res.Count("processable_annotated_fields", int64(ann))
				for _, pr := range probs {
					kind := pr.Kind
					// was the file simply left un-injected because an earlier file stopped the run?
					if bytes.Equal(got, e.Content) {
						kind = "left-uninjected"
					}
					res.Violate("C19|"+kind+"|"+e.Kind, fmt.Sprintf("%s (%s) in mode %s: %s: %s; directory %v", e.Name, e.Kind, mode, kind, pr.Detail, listing),
						injWitness{Mode: mode, Class: e.Kind, File: e.Name, Before: string(e.Content), After: string(got), Output: trunc(run.Output, 800)})
					break
				}
			}
		}
		if d == 0 {
			res.Sample("directory", 1, map[string]interface{}{"mode": mode, "entries": listing})
		}
		os.RemoveAll(dir)
	}
	c19IOFaults(c)
}

func c19AnyUnprocessable(entries []c19Entry) bool {
	for _, e := range entries {
		if strings.HasSuffix(e.Name, ".go") && (e.IsDir || !e.Parses) {
			return true
		}
	}
	return false
}

func uint64FromHash(b []byte) uint64 {
	var x uint64
	for i := 0; i < 8 && i < len(b); i++ {
		x = x<<8 | uint64(b[i])
	}
	return x
}
