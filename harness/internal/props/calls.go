package props

import (
	"fmt"
	"math/rand"
	"net/url"
	"reflect"
	"sort"
	"strings"
	"sync"

	"gitee.com/xuesongtao/protoc-go-valid/valid"
	"vmon/internal/clause"
	"vmon/internal/drive"
	"vmon/internal/gen"
)

// Heterogeneous call specifications shared by the C11 (concurrency) and C12 (history independence)
// monitors: each spec owns its inputs and can be executed any number of times.

type callSpec struct {
	ID     int
	Kind   string
	Desc   string
	Run    func() string // executes the call, returns the normalised observable result
	Inputs []interface{} // every object handed to the library (values, rule maps), for mutation checks
	Preds  []func()      // adversarial predecessors: calls that must not influence Run's result
	Type   reflect.Type  // struct type involved, if any
}

// normErr: sorted clause list (the order of group clauses and of Go map entries is unspecified).
func normErr(o drive.Out) string {
	if o.Panic != "" {
		return "PANIC " + o.Panic + " in " + o.PanicFn
	}
	if o.Nil {
		return "<nil>"
	}
	return normClauses(o.Err)
}

// normClauses sorts the clauses of an error text and, inside a group clause, the member list (for
// map inputs the members come in Go map iteration order).
func normClauses(err string) string {
	cl := clause.Split(err)
	for i, raw := range cl {
		if c := clause.ParseOne(raw); c.Kind == clause.Group {
			ps := append([]string{}, c.Paths...)
			sort.Strings(ps)
			cl[i] = `"` + strings.Join(ps, `", "`) + `" ` + c.Label + " " + c.Text
		}
	}
	sort.Strings(cl)
	return strings.Join(cl, clause.Sep)
}

// specGen builds call specs deterministically from its random source. Two generators created from
// equal seeds produce specs with equal (deeply) but independent inputs; struct types synthesised
// with reflect.StructOf from equal field lists are identical types, so the type cache is shared.
type specGen struct {
	rng   *rand.Rand
	hot   []reflect.Type
	seq   int
	plan  tagPlan
	topts gen.TypeOpts
	n     int
}

// Globally registered functions: registered once, before any goroutine of a workload starts (the
// specs are always built before they are run). vmon_glob reports strings that contain "bad" and odd
// integers; vmon_late_* are registered later, at quiescent points (C11).
var globalsOnce sync.Once

func vmonGlobFn(errBuf *strings.Builder, validName, objName, fieldName string, tv reflect.Value) {
	bad := false
	switch tv.Kind() {
	case reflect.String:
		bad = strings.Contains(tv.String(), "bad")
	case reflect.Int, reflect.Int8, reflect.Int16, reflect.Int32, reflect.Int64:
		bad = tv.Int()%2 != 0
	}
	if bad {
		errBuf.WriteString(`"` + objName + fieldName + `" input "", explain: m_vmon_glob_` + validName + valid.ErrEndFlag)
	}
}

func ensureGlobals() {
	globalsOnce.Do(func() { valid.SetCustomerValidFn("vmon_glob", vmonGlobFn) })
}

func newSpecGen(seed int64, nHot int) *specGen {
	ensureGlobals()
	g := &specGen{rng: rand.New(rand.NewSource(seed))}
	g.plan = tagPlan{TagNames: c08Tags, Style: gen.MsgMixed, MaxRules: 3, Unknown: true, Groups: true, seq: &g.seq}
	g.topts = gen.TypeOpts{MaxFields: 5, MaxDepth: 2, Leaf: vLeafTypes, Unexported: true, Ptr: true, PtrPtr: true, Slices: true, Arrays: true, Maps: false, Tag: g.plan.ruleTag, Time: true}
	for i := 0; i < nHot; i++ {
		if i%2 == 1 && len(namedTypesNoMap) > 0 {
			// named types: clause paths and anything keyed by the struct name are degenerate for
			// the anonymous types reflect.StructOf builds
			g.hot = append(g.hot, namedTypesNoMap[g.rng.Intn(len(namedTypesNoMap))])
			continue
		}
		g.hot = append(g.hot, gen.RandStruct(g.rng, g.topts))
	}
	return g
}

var specKinds = []string{"Struct", "ValidateStruct", "StructForFn", "StructForFns", "NestedStructForRule", "Groups", "Var", "VarForFn", "Map", "MapFn", "Url", "Explain", "Dump", "ColdType", "Helpers", "LongSlice", "TwoRuleSets", "VarSpread", "Refused", "AnonNestedAlone", "GlobalFn", "GroupSlices"}

func (g *specGen) next() callSpec {
	rng := g.rng
	g.n++
	kind := specKinds[rng.Intn(len(specKinds))]
	s := callSpec{ID: g.n - 1, Kind: kind}
	pickType := func() reflect.Type {
		if rng.Intn(4) != 0 {
			return g.hot[rng.Intn(len(g.hot))]
		}
		if rng.Intn(2) == 0 && len(namedTypesNoMap) > 0 {
			return namedTypesNoMap[rng.Intn(len(namedTypesNoMap))]
		}
		return gen.RandStruct(rng, g.topts) // a type of its own
	}
	override := func(t reflect.Type, id string, fnName string) map[string]string {
		rm := map[string]string{}
		for f := 0; f < t.NumField(); f++ {
			sf := t.Field(f)
			if sf.PkgPath == "" && !structish(sf.Type) && rng.Intn(2) == 0 {
				r := gen.RuleList(rng, sf.Type, 2, fmt.Sprintf("%s_%d", id, f), gen.MsgUnique, false)
				if rng.Intn(2) == 0 {
					// same rule keys as the field's own tag, other arguments
					if pr := gen.PerturbRules(rng, sf.Tag.Get(c08Tags[rng.Intn(len(c08Tags))]), sf.Type, fmt.Sprintf("%s_%d", id, f)); pr != "" {
						r = pr
					}
				}
				if fnName != "" && rng.Intn(2) == 0 {
					if r != "" {
						r += ","
					}
					r += fnName
				}
				if rng.Intn(10) == 0 && strings.Contains(r, ",") {
					r = strings.Replace(r, ",", ", ", 1) // a blank after a comma (the token " to" names no rule; the map must stay as written)
				}
				rm[sf.Name] = r
			}
		}
		shareTail(rng, rm, id+"_sh")
		return rm
	}
	structPreds := func(in interface{}, t reflect.Type) []func() {
		otherRM := valid.RM{}
		for f := 0; f < t.NumField(); f++ {
			if sf := t.Field(f); sf.PkgPath == "" && !structish(sf.Type) {
				otherRM[sf.Name] = "required|pred_req,eq=77|pred_eq"
			}
		}
		var nilT interface{} = reflect.Zero(reflect.PointerTo(t)).Interface()
		return []func(){
			func() { drive.Call(func() error { return valid.ValidateStruct(in, "b") }) },
			func() { drive.Call(func() error { return valid.ValidateStruct(in, "a") }) },
			func() { drive.Call(func() error { return valid.Struct(in, otherRM) }) },
			func() {
				drive.Call(func() error {
					return valid.StructForFns(in, otherRM, valid.Name2FnMap{"phone": markerFn("pred_phone"), "required": markerFn("pred_required"), "to": markerFn("pred_to"), "l_mark": markerFn("pred_l_mark")})
				})
			},
			func() { helperCalls("required", "", "", 0); helperCalls("to", "1~3", "m", 3) },
			func() { helperCalls("re", "", "", 1); helperCalls("in", "", "x", 2); helperCalls("eq", "5", "", 4) },
			func() { drive.Call(func() error { return valid.Struct(nil) }) },
			func() { drive.Call(func() error { return valid.Struct(nilT) }) },
			func() { drive.Call(func() error { return valid.Struct(5) }) },
			// calls refused at the entry guard while carrying rule sets and functions of their own
			func() { drive.Call(func() error { return valid.StructForFn(nilT, otherRM) }) },
			func() { drive.Call(func() error { return valid.Struct(nil, otherRM) }) },
			func() {
				drive.Call(func() error {
					return valid.StructForFns(nilT, otherRM, valid.Name2FnMap{"phone": markerFn("pred_phone2"), "required": markerFn("pred_required2"), "l_mark": markerFn("pred_l_mark2")})
				})
			},
			func() {
				drive.Call(func() error {
					return valid.NestedStructForRule(nilT, map[interface{}]valid.RM{reflect.New(t).Interface(): otherRM, &C16Inner{}: {"Name": "eq=77|pred_nested"}, &C16Outer{}: {"Name": "eq=77|pred_nested_o"}})
				})
			},
			func() {
				drive.Call(func() error { return valid.ValidStructForMyValidFn(nil, "required", markerFn("pred_required3")) })
			},
			func() { drive.Call(func() error { return valid.Var("x", "to=5~9|pred_var,nosuch_pred") }) },
		}
	}
	switch kind {
	case "TwoRuleSets":
		// two rule sets handed to one validator (the later one wins); neither caller-owned map may change
		t := pickType()
		v := ptrTo(tunedFill(rng, t, "valid", 0.15))
		in := v.Interface()
		rm1, rm2 := toRM(override(t, fmt.Sprintf("a%d", s.ID), "")), toRM(override(t, fmt.Sprintf("b%d", s.ID), ""))
		o := c16Outer(rng, 1)
		rmI1, rmI2 := toRM(c16RuleSet(rng, fmt.Sprintf("i1_%d", s.ID), nil, nil)), toRM(c16RuleSet(rng, fmt.Sprintf("i2_%d", s.ID), nil, nil))
		s.Type = t
		s.Inputs = []interface{}{in, rm1, rm2, o, rmI1, rmI2}
		s.Preds = structPreds(in, t)
		s.Desc = fmt.Sprintf("NewVStruct().SetRule(%v).SetRule(%v).Valid(v); NewVStruct().SetRule(%v,&Inner{}).SetRule(%v,&Inner{}).Valid(outer)", rm1, rm2, rmI1, rmI2)
		s.Run = func() string {
			a := normErr(drive.Call(func() error { return valid.NewVStruct().SetRule(rm1).SetRule(rm2).Valid(in) }))
			b := normErr(drive.Call(func() error {
				return valid.NewVStruct().SetRule(rmI1, &C16Inner{}).SetRule(rmI2, &C16Inner{}).Valid(o)
			}))
			// two maps handed to the variadic parameter of Struct: whichever of them the call uses, both stay as written
			c := normErr(drive.Call(func() error { return valid.Struct(in, rm1, rm2) }))
			return a + " ## " + b + " ## " + c
		}
	case "GroupSlices":
		// botheq / either groups whose members are unsorted slices (struct by pointer, by value, and a map of
		// slices): a comparison that orders or de-duplicates must work on copies
		type gsT struct {
			A []string  `valid:"botheq=1"`
			B []string  `valid:"botheq=1"`
			N []int     `valid:"botheq=2"`
			M []int     `valid:"botheq=2"`
			F []float64 `valid:"botheq=3,either=4"`
			G []float64 `valid:"botheq=3,either=4"`
		}
		n := 2 + rng.Intn(6)
		v := &gsT{}
		for i := 0; i < n; i++ {
			v.A = append(v.A, fmt.Sprintf("s%d", rng.Intn(9)))
			v.N = append(v.N, rng.Intn(9))
			v.F = append(v.F, float64(rng.Intn(9))/2)
		}
		v.B = append([]string{}, v.A...)
		v.M = append([]int{}, v.N...)
		v.G = append([]float64{}, v.F...)
		switch rng.Intn(3) {
		case 0: // same elements, other order
			rng.Shuffle(len(v.B), func(a, b int) { v.B[a], v.B[b] = v.B[b], v.B[a] })
			rng.Shuffle(len(v.M), func(a, b int) { v.M[a], v.M[b] = v.M[b], v.M[a] })
			rng.Shuffle(len(v.G), func(a, b int) { v.G[a], v.G[b] = v.G[b], v.G[a] })
		case 1: // one element differs
			v.B[rng.Intn(n)] = "zz"
			v.M[rng.Intn(n)] = 99
		}
		switch rng.Intn(3) {
		case 0:
			s.Inputs = []interface{}{v}
			s.Desc = fmt.Sprintf("Struct(&%+v) with botheq groups over slices", *v)
			s.Run = func() string { return normErr(drive.Call(func() error { return valid.Struct(v) })) }
		case 1:
			s.Inputs = []interface{}{v}
			s.Desc = fmt.Sprintf("Struct(%+v) by value with botheq groups over slices", *v)
			s.Run = func() string { return normErr(drive.Call(func() error { return valid.Struct(*v) })) }
		default:
			m := map[string]interface{}{"a": v.A, "b": v.B, "n": v.N, "m": v.M}
			rm := valid.RM{"a": "botheq=1", "b": "botheq=1", "n": "botheq=2", "m": "botheq=2"}
			s.Inputs = []interface{}{m, rm}
			s.Desc = fmt.Sprintf("Map(%v, %v) with botheq groups over slices", m, rm)
			s.Run = func() string { return normErr(drive.Call(func() error { return valid.Map(m, rm) })) }
		}
	case "VarSpread":
		// rules handed over as a caller-owned slice (with empty items), spread into the variadic parameter
		t := flatScalarTypes[rng.Intn(len(flatScalarTypes))]
		list := []string{}
		for k := 0; k < 2+rng.Intn(4); k++ {
			if rng.Intn(3) == 0 {
				list = append(list, "")
				continue
			}
			r := strings.Trim(gen.RuleList(rng, t, 1, fmt.Sprintf("vs%d_%d", s.ID, k), gen.MsgUnique, false), ",")
			list = append(list, r)
		}
		full := append(make([]string, 0, len(list)+4), list...) // spare capacity, as a slice cut from a bigger array has
		v := gen.TunedLeaf(rng, t, strings.Join(list, ","), 0.1).Interface()
		s.Inputs = []interface{}{v, full}
		s.Desc = fmt.Sprintf("Var(%v, %q...)", v, full)
		s.Run = func() string { return normErr(drive.Call(func() error { return valid.Var(v, full...) })) }
	case "LongSlice":
		// long, unsorted collections under the rules that walk them (thresholds of fast paths; rules
		// that sort or de-duplicate must work on copies)
		n := 17 + rng.Intn(30)
		ss := make([]string, n)
		is := make([]int, n)
		for i := range ss {
			ss[i] = fmt.Sprintf("e%02d", rng.Intn(80))
			if rng.Intn(3) == 0 {
				ss[i] = []string{" 1", "7 ", "12", " 3 ", "4"}[rng.Intn(5)] // blank-padded elements must come back as they went in
			}
			is[i] = rng.Intn(80)
		}
		rule := []string{"unique|m_u", "unique", "unique,ge=3|m_g", "ints|m_i,unique", "le=100,unique|m_u"}[rng.Intn(5)]
		type longT struct {
			L []string `valid:"unique|m_lu,le=90"`
			N []int    `valid:"unique,ints"`
		}
		switch rng.Intn(3) {
		case 0:
			s.Inputs = []interface{}{ss}
			s.Desc = fmt.Sprintf("Var([]string x%d, %q)", n, rule)
			s.Run = func() string { return normErr(drive.Call(func() error { return valid.Var(ss, rule) })) }
		case 1:
			s.Inputs = []interface{}{is}
			s.Desc = fmt.Sprintf("Var([]int x%d, %q)", n, rule)
			s.Run = func() string { return normErr(drive.Call(func() error { return valid.Var(is, rule) })) }
		default:
			v := &longT{L: ss, N: is}
			s.Inputs = []interface{}{v}
			s.Desc = fmt.Sprintf("Struct(longT with %d-element slices)", n)
			s.Run = func() string { return normErr(drive.Call(func() error { return valid.Struct(v) })) }
		}
	case "Helpers":
		// the exported helpers share the pooled builders with the validators
		key := allRuleKeys[rng.Intn(len(allRuleKeys))]
		val := []string{"", "1~3", "a/b", "'x,y'", "="}[rng.Intn(5)]
		msg := []string{"", "m", "必填", "two words"}[rng.Intn(4)]
		shape := rng.Intn(6)
		s.Inputs = []interface{}{key, val, msg}
		s.Desc = fmt.Sprintf("helpers(key=%q val=%q msg=%q shape=%d)", key, val, msg, shape)
		s.Run = func() string { return helperCalls(key, val, msg, shape) }
	case "Struct", "ValidateStruct", "StructForFn", "StructForFns":
		t := pickType()
		tag := "valid"
		if kind != "Struct" {
			tag = c08Tags[rng.Intn(len(c08Tags))]
		}
		v := ptrTo(tunedFill(rng, t, tag, 0.15))
		in := v.Interface()
		s.Type = t
		s.Inputs = []interface{}{in}
		s.Preds = structPreds(in, t)
		switch kind {
		case "Struct":
			s.Desc = "Struct(v)"
			s.Run = func() string { return normErr(drive.Call(func() error { return valid.Struct(in) })) }
		case "ValidateStruct":
			s.Desc = fmt.Sprintf("ValidateStruct(v,%q)", tag)
			s.Run = func() string { return normErr(drive.Call(func() error { return valid.ValidateStruct(in, tag) })) }
		case "StructForFn":
			rm := toRM(override(t, fmt.Sprintf("o%d", s.ID), ""))
			s.Inputs = append(s.Inputs, rm)
			s.Desc = fmt.Sprintf("StructForFn(v,%v,%q)", rm, tag)
			s.Run = func() string { return normErr(drive.Call(func() error { return valid.StructForFn(in, rm, tag) })) }
		default:
			rm := toRM(override(t, fmt.Sprintf("o%d", s.ID), "l_mark"))
			mark := fmt.Sprintf("fn_l_mark_%d", s.ID)
			fns := valid.Name2FnMap{"l_mark": markerFn(mark), "phone": markerFn(mark + "_phone")}
			s.Inputs = append(s.Inputs, rm)
			s.Desc = fmt.Sprintf("StructForFns(v,%v,{l_mark,phone},%q)", rm, tag)
			s.Run = func() string {
				return normErr(drive.Call(func() error { return valid.StructForFns(in, rm, fns, tag) }))
			}
		}
	case "NestedStructForRule":
		o := c16Outer(rng, 1)
		rmI := toRM(c16RuleSet(rng, fmt.Sprintf("sci%d", s.ID), nil, nil))
		rmO := toRM(c16RuleSet(rng, fmt.Sprintf("sco%d", s.ID), nil, nil))
		s.Type = tC16Outer
		s.Inputs = []interface{}{o, rmI, rmO}
		s.Preds = structPreds(o, tC16Outer)
		s.Desc = fmt.Sprintf("NestedStructForRule(outer,{Inner:%v,Outer:%v})", rmI, rmO)
		s.Run = func() string {
			return normErr(drive.Call(func() error {
				return valid.NestedStructForRule(o, map[interface{}]valid.RM{&C16Inner{}: rmI, &C16Outer{}: rmO})
			}))
		}
	case "Groups":
		t := c17Named[rng.Intn(len(c17Named))]
		gidx := gidxFromTags(t)
		sl := reflect.MakeSlice(reflect.SliceOf(t), 0, 3)
		for k := 1 + rng.Intn(3); k > 0; k-- {
			v, _ := c17Value(rng, t, gidx)
			sl = reflect.Append(sl, v)
		}
		in := sl.Interface()
		s.Type = t
		s.Inputs = []interface{}{in}
		s.Desc = "Struct([]" + t.Name() + ") with either/botheq groups"
		s.Run = func() string { return normErr(drive.Call(func() error { return valid.Struct(in) })) }
	case "Var", "VarForFn":
		t := flatScalarTypes[rng.Intn(len(flatScalarTypes))]
		rules := strings.Trim(gen.RuleList(rng, t, 4, fmt.Sprintf("v%d", s.ID), gen.MsgMixed, true), ",")
		v := gen.TunedLeaf(rng, t, rules, 0.1).Interface()
		s.Inputs = []interface{}{v}
		s.Preds = []func(){
			func() { drive.Call(func() error { return valid.Var(v, "eq=77|pred_eq", "required|pred_req") }) },
			func() { drive.Call(func() error { return valid.VarForFn(v, markerFn("pred_varfn")) }) },
			func() { drive.Call(func() error { return valid.Var(nil, "required", "eq=77|pred_eq2") }) },
			func() { drive.Call(func() error { return valid.VarForFn(nil, markerFn("pred_varfn2")) }) },
			func() { var np *int; drive.Call(func() error { return valid.Var(np, "eq=77|pred_eq3") }) },
			func() { drive.Call(func() error { return valid.Var(struct{}{}, "required") }) },
		}
		if kind == "Var" {
			if rules == "" {
				rules = "required"
			}
			s.Desc = fmt.Sprintf("Var(%v,%q)", v, rules)
			s.Run = func() string { return normErr(drive.Call(func() error { return valid.Var(v, rules) })) }
		} else {
			mark := fmt.Sprintf("fn_var_%d", s.ID)
			s.Desc = fmt.Sprintf("VarForFn(%v)", v)
			s.Run = func() string { return normErr(drive.Call(func() error { return valid.VarForFn(v, markerFn(mark)) })) }
		}
	case "GlobalFn":
		// a rule name that resolves to a globally registered function, next to a built-in and an unknown name
		v := []interface{}{"bad word", "good", 3, 4, "a bad one", int64(7)}[rng.Intn(6)]
		rules := [][]string{{"vmon_glob"}, {"vmon_glob", "to=1~3|m_g1"}, {"required|m_g2", "vmon_glob"}, {"vmon_glop", "vmon_glob"}}[rng.Intn(4)]
		if rng.Intn(2) == 0 {
			s.Desc = fmt.Sprintf("Var(%v,%q) with a global function", v, rules)
			s.Run = func() string { return normErr(drive.Call(func() error { return valid.Var(v, rules...) })) }
		} else {
			rm := valid.RM{"k": strings.Join(rules, ",")}
			m := map[string]interface{}{"k": v}
			s.Inputs = []interface{}{m, rm}
			s.Desc = fmt.Sprintf("Map(%v,%v) with a global function", m, rm)
			s.Run = func() string { return normErr(drive.Call(func() error { return valid.Map(m, rm) })) }
		}
	case "Map", "MapFn":
		t := flatScalarTypes[rng.Intn(len(flatScalarTypes))]
		m := reflect.MakeMap(reflect.MapOf(gen.TString, t))
		rm := valid.RM{}
		for k := 0; k < 1+rng.Intn(4); k++ {
			key := fmt.Sprintf("k%d", k)
			r := strings.Trim(gen.RuleList(rng, t, 3, fmt.Sprintf("m%d_%d", s.ID, k), gen.MsgMixed, true), ",")
			if r == "" {
				r = "required|m_req"
			}
			if kind == "MapFn" && rng.Intn(2) == 0 {
				r += ",l_mark"
			}
			if kind == "MapFn" && rng.Intn(3) == 0 {
				r = "l_two," + r // a second per-call function: each name resolves to ITS function
			}
			rm[key] = r
			m.SetMapIndex(reflect.ValueOf(key), gen.TunedLeaf(rng, t, r, 0.15))
		}
		if rng.Intn(3) == 0 {
			rm["e1"], rm["e2"] = "either=1", "either=1"
			m.SetMapIndex(reflect.ValueOf("e1"), reflect.Zero(t))
			m.SetMapIndex(reflect.ValueOf("e2"), reflect.Zero(t))
		}
		if rng.Intn(3) == 0 {
			// entries without any rule (empty text, separators only): they demand nothing, and they stay in the caller's map
			rm["blank"] = []string{"", ",", " ", ",,"}[rng.Intn(4)]
			if rng.Intn(2) == 0 {
				m.SetMapIndex(reflect.ValueOf("blank"), gen.TunedLeaf(rng, t, "", 0.3))
			}
		}
		in := m.Interface()
		s.Inputs = []interface{}{in, rm}
		s.Preds = []func(){
			func() {
				drive.Call(func() error { return valid.Map(in, valid.RM{"k0": "eq=77|pred_eq", "zz": "required|pred_req"}) })
			},
			func() { drive.Call(func() error { return valid.Map(5, rm) }) },
			func() { drive.Call(func() error { return valid.Map(nil, valid.RM{"k0": "eq=77|pred_eq2"}) }) },
			func() {
				drive.Call(func() error {
					return valid.MapFn(nil, valid.RM{"k0": "l_mark"}, valid.Name2FnMap{"l_mark": markerFn("pred_l_mark3")})
				})
			},
			func() {
				drive.Call(func() error {
					return valid.MapFn(in, rm, valid.Name2FnMap{"l_mark": markerFn("pred_l_mark"), "required": markerFn("pred_r")})
				})
			},
		}
		if kind == "Map" {
			s.Desc = fmt.Sprintf("Map(%v,%v)", in, rm)
			s.Run = func() string { return normErr(drive.Call(func() error { return valid.Map(in, rm) })) }
		} else {
			mark := fmt.Sprintf("fn_map_%d", s.ID)
			fns := valid.Name2FnMap{"l_mark": markerFn(mark), "l_two": markerFn(mark + "_two"), "l_unused": markerFn(mark + "_unused")}
			s.Desc = fmt.Sprintf("MapFn(%v,%v,{l_mark})", in, rm)
			s.Run = func() string { return normErr(drive.Call(func() error { return valid.MapFn(in, rm, fns) })) }
		}
	case "Url":
		rm := valid.RM{}
		q := []string{}
		for k := 0; k < 1+rng.Intn(4); k++ {
			key := fmt.Sprintf("k%d", k)
			r := strings.Trim(gen.RuleList(rng, gen.TString, 3, fmt.Sprintf("u%d_%d", s.ID, k), gen.MsgMixed, true), ",")
			if r == "" {
				r = "required|m_req"
			}
			rm[key] = r
			q = append(q, key+"="+url.QueryEscape(gen.TunedLeaf(rng, gen.TString, r, 0.15).String()))
		}
		u := "http://h.example/p?" + strings.Join(q, "&")
		if rng.Intn(4) == 0 {
			rm["blank"] = []string{"", ","}[rng.Intn(2)]
		}
		var uin interface{} = u
		form := "string"
		switch rng.Intn(4) {
		case 0: // the caller's own *string
			up := new(string)
			*up = u
			uin, form = up, "*string"
		case 1: // ... holding a wholly percent-encoded URL
			up := new(string)
			*up = url.QueryEscape(u)
			uin, form = up, "*string, whole URL encoded"
		case 2:
			uin, form = url.QueryEscape(u), "string, whole URL encoded"
		}
		s.Inputs = []interface{}{uin, rm}
		s.Preds = []func(){
			func() {
				drive.Call(func() error { return valid.Url(u, valid.RM{"k0": "eq=77|pred_eq", "zz": "required|pred_req"}) })
			},
			func() { drive.Call(func() error { return valid.Url(5, rm) }) },
			func() { drive.Call(func() error { return valid.Url(nil, valid.RM{"k0": "eq=77|pred_eq2"}) }) },
			func() {
				var ns *string
				drive.Call(func() error { return valid.Url(ns, valid.RM{"k0": "eq=77|pred_eq3"}) })
			},
			func() { drive.Call(func() error { return valid.Url("http://x?a=%zz", rm) }) },
		}
		s.Desc = fmt.Sprintf("Url(%s %q,%v)", form, u, rm)
		s.Run = func() string { return normErr(drive.Call(func() error { return valid.Url(uin, rm) })) }
	case "Refused":
		// inputs every entry point refuses before looking at any field (nil, typed nil pointers,
		// non-structs): the call answers with an error and leaves nothing behind for the calls around it
		t := pickType()
		np := reflect.Zero(reflect.PointerTo(t)).Interface()
		fns := valid.Name2FnMap{"l_mark": markerFn(fmt.Sprintf("fn_ref_%d", s.ID))}
		rm := valid.RM{"F0": "required|m_ref"}
		k := rng.Intn(18)
		sv := reflect.Zero(t).Interface() // a struct VALUE: Var, Map and Url refuse it
		s.Type = t
		s.Desc = fmt.Sprintf("refused input, variant %d on %s", k, trunc(t.String(), 80))
		s.Run = func() string {
			return normErr(drive.Call(func() error {
				switch k {
				case 0:
					return valid.Struct(nil)
				case 1:
					return valid.Struct(np)
				case 2:
					return valid.StructForFn(np, rm, "a")
				case 3:
					return valid.StructForFns(np, rm, fns)
				case 4:
					return valid.ValidateStruct(nil, "b")
				case 5:
					return valid.NestedStructForRule(np, map[interface{}]valid.RM{np: rm})
				case 6:
					return valid.Map(nil, rm)
				case 8: // kinds Var does not take: the refusal leaves nothing behind either (no object in a wrong pool, no rules)
					return valid.Var(sv, "required", "to=1~2|m_ref_var")
				case 9:
					return valid.Var(map[string]int{"a": 1}, "required")
				case 10:
					return valid.VarForFn(np, func(errBuf *strings.Builder, validName, objName, fieldName string, tv reflect.Value) {})
				case 11:
					return valid.Var(make(chan int), "required|m_ref_chan")
				case 12:
					return valid.Map(5, rm)
				case 13:
					return valid.Map(sv, rm)
				case 14:
					return valid.MapFn([]int{1}, rm, fns)
				case 15:
					return valid.Struct(5)
				case 16:
					return valid.StructForFns([]int{1, 2}, rm, fns)
				case 17:
					var up *string
					return valid.Url(up, rm)
				}
				return valid.Var(nil, "required")
			}))
		}
	case "AnonNestedAlone":
		// one anonymous struct type validated as a member of an outer object, or on its own: how it
		// is named in the result depends on where it stands in THIS call
		t := g.hot[rng.Intn(len(g.hot))]
		for tries := 0; t.Name() != "" && tries < 20; tries++ {
			t = g.hot[rng.Intn(len(g.hot))]
		}
		v := tunedFill(rng, t, "valid", 0.15)
		if rng.Intn(2) == 0 {
			in := ptrTo(v).Interface()
			s.Type = t
			s.Inputs = []interface{}{in}
			s.Desc = "Struct(anonymous type on its own) " + trunc(t.String(), 80)
			s.Run = func() string { return normErr(drive.Call(func() error { return valid.Struct(in) })) }
		} else {
			ot := reflect.StructOf([]reflect.StructField{
				{Name: "Lead", Type: gen.TString, Tag: `valid:"required|m_lead"`},
				{Name: "Detail", Type: t, Tag: `valid:"exist"`},
				{Name: "List", Type: reflect.SliceOf(t), Tag: `valid:"exist"`},
			})
			o := reflect.New(ot)
			o.Elem().Field(1).Set(v)
			o.Elem().Field(2).Set(reflect.Append(reflect.MakeSlice(reflect.SliceOf(t), 0, 1), tunedFill(rng, t, "valid", 0.15)))
			in := o.Interface()
			s.Type = ot
			s.Inputs = []interface{}{in}
			s.Desc = "Struct(outer{Detail: anonymous type, List: []anonymous type}) " + trunc(t.String(), 80)
			s.Run = func() string { return normErr(drive.Call(func() error { return valid.Struct(in) })) }
		}
	case "Explain":
		parts := []string{}
		for k := 0; k < 1+rng.Intn(5); k++ {
			switch rng.Intn(4) {
			case 0:
				parts = append(parts, fmt.Sprintf(`"T.F%d" input "%d", explain: msg_%d_%d`, k, rng.Intn(99), s.ID, k))
			case 1:
				parts = append(parts, fmt.Sprintf(`"T.F%d" input "", 说明: 必填_%d_%d`, k, s.ID, k))
			case 2:
				parts = append(parts, fmt.Sprintf(`valid "nosuch_%d" is not exist, You can call SetValidFn`, k))
			default:
				parts = append(parts, fmt.Sprintf(`"T.A", "T.B" explain: they shouldn't all be empty`))
			}
		}
		text := strings.Join(parts, "; ")
		s.Inputs = []interface{}{text}
		s.Desc = fmt.Sprintf("GetOnlyExplainErr(%q)", text)
		s.Run = func() string {
			r, pan, _ := drive.CallStr(func() string { return valid.GetOnlyExplainErr(text) })
			if pan != "" {
				return "PANIC " + pan
			}
			return r
		}
	case "Dump":
		t := pickType()
		v := ptrTo(tunedFill(rng, t, "valid", 0.15)).Interface()
		s.Type = t
		s.Inputs = []interface{}{v}
		s.Desc = "GetDumpStructStr(v)"
		s.Run = func() string {
			r, pan, _ := drive.CallStr(func() string { return valid.GetDumpStructStr(v) })
			if pan != "" {
				return "PANIC " + pan
			}
			return r
		}
	default: // ColdType: a type nobody else uses, so the cache keeps growing and evicting
		tag := fmt.Sprintf(`valid:"ge=%d|m_cold%d,le=%d" a:"eq=%d|m_colda%d"`, rng.Intn(7), s.ID, 3+rng.Intn(7), rng.Intn(5), s.ID)
		t := reflect.StructOf([]reflect.StructField{{Name: "N", Type: gen.TInt, Tag: reflect.StructTag(tag)}, {Name: fmt.Sprintf("X%d", s.ID%97), Type: gen.TString, Tag: `valid:"required|m_x"`}})
		v := reflect.New(t)
		v.Elem().Field(0).SetInt(int64(rng.Intn(12)))
		in := v.Interface()
		tg := []string{"valid", "a"}[rng.Intn(2)]
		s.Type = t
		s.Inputs = []interface{}{in}
		s.Preds = structPreds(in, t)
		s.Desc = fmt.Sprintf("ValidateStruct(cold type, %q)", tg)
		s.Run = func() string { return normErr(drive.Call(func() error { return valid.ValidateStruct(in, tg) })) }
	}
	if s.Type != nil {
		s.Desc += " type " + trunc(s.Type.String(), 300)
	}
	return s
}

func (g *specGen) list(n int) []callSpec {
	out := make([]callSpec, n)
	for i := range out {
		out[i] = g.next()
	}
	return out
}

// helperCalls exercises the exported rule / error-text helpers in every argument shape and returns
// what they returned (the helpers borrow the same pooled builders as the validators).
func helperCalls(key, val, msg string, shape int) string {
	out, pan, _ := drive.CallStr(func() string {
		var parts []string
		switch shape {
		case 0:
			parts = append(parts, valid.GenValidKV(key, ""))
		case 1:
			parts = append(parts, valid.GenValidKV(key))
		case 2:
			parts = append(parts, valid.GenValidKV(key, "", msg))
		case 3:
			parts = append(parts, valid.GenValidKV(key, val, msg))
		case 4:
			parts = append(parts, valid.GenValidKV(key, val))
		default:
			parts = append(parts, valid.GenValidKV(key, val), valid.GenValidKV(key, ""), valid.GenValidKV(key, "", ""))
		}
		rm := valid.NewRule().Set("A,B", parts[0]).Set("A", "required")
		parts = append(parts, rm.Get("A"), rm.Get("B"))
		for _, p := range valid.ValidNamesSplit(rm.Get("A")) {
			k, v, m := valid.ParseValidNameKV(p)
			parts = append(parts, k+"/"+v+"/"+m)
		}
		parts = append(parts, valid.GetJoinValidErrStr("O", "F", val, msg), valid.GetJoinValidErrStr("", "F", val), valid.GetJoinFieldErr("O", "F", "e"), valid.GetOnlyExplainErr(valid.GetJoinValidErrStr("O", "F", val, "why")))
		return strings.Join(parts, " # ")
	})
	if pan != "" {
		return "PANIC " + pan
	}
	return out
}
