package props

import (
	"bytes"
	"crypto/sha256"
	"fmt"
	"os"
	"os/exec"
	"path/filepath"
	"sort"
	"strings"
	"syscall"
	"time"

	"vmon/internal/core"
	"vmon/internal/gen"
	"vmon/internal/ref"
)

// I/O faults for C19 (added after a statement-coverage audit of the quick checks showed that the error
// paths behind os.Open / ioutil.WriteFile / os.ReadDir / filepath.Glob were the only statements of the
// injector no workload reached): files the tool cannot read or cannot write are "files it cannot
// process". The fault is injected where a real one happens — at the open system call — by running the
// built CLI as an unprivileged user (uid 65534 through SysProcAttr.Credential when the monitor runs as
// root, the monitor's own uid otherwise) on files whose mode denies the access. Expected: no crash, an
// unreadable file stays byte-identical, an unwritable one stays byte-identical or is injected correctly
// (a tool that replaces the file by rename may succeed), every other .go file is processed as usual.

const nobodyID = 65534

// unprivilegedCmd returns the command to run the CLI without the right to ignore file modes.
func unprivilegedCmd(name string, args ...string) *exec.Cmd {
	cmd := exec.Command(name, args...)
	if os.Geteuid() == 0 {
		cmd.SysProcAttr = &syscall.SysProcAttr{Credential: &syscall.Credential{Uid: nobodyID, Gid: nobodyID, NoSetGroups: false, Groups: []uint32{}}}
	}
	return cmd
}

// openPathFor makes every ancestor of p that belongs to this run traversable by others.
func openPathFor(p string) {
	for d := p; d != "/" && d != "." && d != ""; d = filepath.Dir(d) {
		st, err := os.Stat(d)
		if err != nil {
			continue
		}
		if st.Mode().Perm()&0o005 != 0o005 {
			if sys, ok := st.Sys().(*syscall.Stat_t); ok && int(sys.Uid) == os.Geteuid() {
				os.Chmod(d, st.Mode().Perm()|0o055)
			}
		}
	}
}

// ioFaultsAvailable: does a mode of 0000 really stop the process the CLI will run as?
func ioFaultsAvailable(dir string) (bool, string) {
	probe := filepath.Join(dir, "probe.txt")
	if err := os.WriteFile(probe, []byte("x"), 0o600); err != nil {
		return false, err.Error()
	}
	os.Chmod(probe, 0)
	defer os.Remove(probe)
	cat, err := exec.LookPath("cat")
	if err != nil {
		return false, "no cat"
	}
	cmd := unprivilegedCmd(cat, probe)
	out, err := cmd.CombinedOutput()
	if err == nil {
		return false, "a file of mode 0000 is readable by the unprivileged process"
	}
	if _, ok := err.(*exec.ExitError); !ok {
		return false, "cannot start an unprivileged process: " + err.Error()
	}
	if !strings.Contains(string(out), "denied") {
		return false, "unexpected probe output: " + trunc(string(out), 120)
	}
	// and it must be able to reach and run things in the directory at all
	os.Chmod(probe, 0o644)
	if out, err := unprivilegedCmd(cat, probe).CombinedOutput(); err != nil || string(out) != "x" {
		return false, "the unprivileged process cannot reach the work directory"
	}
	return true, ""
}

func runCLIAs(c *core.Ctx, unprivileged bool, args ...string) injRun {
	var cmd *exec.Cmd
	if unprivileged {
		cmd = unprivilegedCmd(c.CLI, args...)
	} else {
		cmd = exec.Command(c.CLI, args...)
	}
	var buf bytes.Buffer
	cmd.Stdout, cmd.Stderr = &buf, &buf
	if err := cmd.Start(); err != nil {
		return injRun{Mode: strings.Join(args, " "), ExitCode: -3, Output: err.Error()}
	}
	done := make(chan error, 1)
	go func() { done <- cmd.Wait() }()
	var err error
	select {
	case err = <-done:
	case <-time.After(60 * time.Second):
		cmd.Process.Kill()
		<-done
		return injRun{Mode: strings.Join(args, " "), ExitCode: -2, Output: "watchdog: CLI did not finish within 60s"}
	}
	r := injRun{Mode: strings.Join(args, " "), Output: buf.String()}
	if err != nil {
		if ee, ok := err.(*exec.ExitError); ok {
			r.ExitCode = ee.ExitCode()
		} else {
			r.ExitCode = -1
		}
	}
	if strings.Contains(r.Output, "panic:") || strings.Contains(r.Output, "fatal error:") || strings.Contains(r.Output, "goroutine 1 [running]") {
		r.Crashed = true
	}
	r.Output = trunc(r.Output, 3000)
	return r
}

type ioEntry struct {
	Name    string
	Kind    string // processable | noread | nowrite | unparseable | nongo
	Content []byte
	Parses  bool
}

func c19IOFaults(c *core.Ctx) {
	res := c.Res
	rng := c.Rng("iofaults")
	base := filepath.Join(c.WorkDir, "io")
	os.MkdirAll(base, 0o777)
	os.Chmod(base, 0o777)
	openPathFor(base)
	openPathFor(c.CLI)
	ok, why := ioFaultsAvailable(base)
	if !ok {
		res.Assume("I/O permission faults could not be injected here (" + why + "); only the degenerate invocations of that phase were run")
		res.Count("io_fault_dirs_skipped")
	}
	D := c.Pick(20, 600)
	modes := []string{"-d", "-p", "-p*", "-f"}
	for d := 0; d < D && ok; d++ {
		dir := filepath.Join(base, fmt.Sprintf("f%d", d))
		os.RemoveAll(dir)
		os.MkdirAll(dir, 0o777)
		os.Chmod(dir, 0o777)
		n := 3 + rng.Intn(6)
		entries := []ioEntry{}
		faults := 0
		for i := 0; i < n; i++ {
			name := fmt.Sprintf("%c%02d", 'a'+rune(rng.Intn(26)), i)
			cl := []string{"G1", "G2", "G3", "G6"}[rng.Intn(4)]
			src, ann := gen.GenGoFile(rng, gen.SrcOpts{Class: cl})
			e := ioEntry{Name: name + ".pb.go", Kind: "processable", Content: []byte(src), Parses: true}
			if ann == 0 {
				e.Kind = "plain"
			}
			switch r := rng.Intn(10); {
			case r < 2 || (i == n-1 && faults == 0):
				e.Kind = []string{"noread", "nowrite", "nowrite"}[rng.Intn(3)]
				faults++
			case r == 2:
				e = ioEntry{Name: name + ".go", Kind: "unparseable", Content: []byte(strings.Replace(src, "struct {", "struct struct {{", 1))}
				if _, err := ref.AnalyzeGo(e.Content); err == nil {
					e.Kind, e.Parses = "plain-ish", true
				}
			case r == 3:
				e = ioEntry{Name: name + ".txt", Kind: "nongo", Content: []byte(src)}
			}
			entries = append(entries, e)
		}
		sort.Slice(entries, func(i, j int) bool { return entries[i].Name < entries[j].Name })
		h := sha256.New()
		listing := []string{}
		procAfterFault, faultSeen := 0, false
		for _, e := range entries {
			p := filepath.Join(dir, e.Name)
			os.WriteFile(p, e.Content, 0o666)
			switch e.Kind {
			case "noread":
				os.Chmod(p, 0)
				faultSeen = true
			case "nowrite":
				os.Chmod(p, 0o444)
				faultSeen = true
			default:
				os.Chmod(p, 0o666)
				if e.Kind == "processable" && faultSeen {
					procAfterFault++
				}
			}
			h.Write([]byte(e.Name + "\x00" + e.Kind + "\x00"))
			h.Write(e.Content)
			listing = append(listing, e.Name+"("+e.Kind+")")
			res.Count("io|" + e.Kind)
		}
		mode := modes[d%len(modes)]
		c.Journal("C19 io-fault dir %d mode %s entries %v", d, mode, listing)
		var runs []injRun
		switch mode {
		case "-d":
			runs = append(runs, runCLIAs(c, true, "-d", dir))
		case "-p":
			runs = append(runs, runCLIAs(c, true, "-p", filepath.Join(dir, "*.go")))
		case "-p*":
			runs = append(runs, runCLIAs(c, true, "-p", filepath.Join(dir, "*")))
		default:
			for _, e := range entries {
				runs = append(runs, runCLIAs(c, true, "-f", filepath.Join(dir, e.Name)))
			}
		}
		res.Eval()
		res.Count("io_fault_dirs|" + mode)
		if procAfterFault > 0 {
			res.Count("io_fault_dirs_with_processable_after_fault")
			res.DistinctHash(uint64FromHash(h.Sum(nil)))
		}
		for _, run := range runs {
			if run.ExitCode == -3 {
				res.Inconc("C19 io faults: the CLI could not be started as an unprivileged process: " + run.Output)
				return
			}
			if run.Crashed || run.ExitCode < 0 || run.ExitCode >= 2 {
				res.Violate("C19|cli-crashed|io-fault", fmt.Sprintf("CLI %s exit=%d crashed=%v with unreadable / read-only files in %v: %s", run.Mode, run.ExitCode, run.Crashed, listing, trunc(run.Output, 500)),
					map[string]interface{}{"mode": mode, "entries": listing, "output": run.Output})
			}
		}
		allOut := ""
		for _, run := range runs {
			allOut += run.Output
		}
		for _, e := range entries {
			p := filepath.Join(dir, e.Name)
			got, err := os.ReadFile(p)
			if err != nil {
				res.Violate("C19|file-lost|io-fault", fmt.Sprintf("%s (%s) disappeared (mode %s); directory %v", e.Name, e.Kind, mode, listing), listing)
				continue
			}
			isGo := strings.HasSuffix(e.Name, ".go")
			switch {
			case e.Kind == "noread" || !isGo || !e.Parses:
				res.Count("io_unprocessable_checked")
				if !bytes.Equal(got, e.Content) {
					res.Violate("C19|unprocessable-file-changed|io-"+e.Kind, fmt.Sprintf("%s (%s) must stay byte-identical but changed: %s (mode %s)", e.Name, e.Kind, firstDiffLine(e.Content, got), mode),
						injWitness{Mode: mode, Class: "io-" + e.Kind, File: e.Name, Before: string(e.Content), After: string(got), Output: trunc(allOut, 800)})
				}
			case e.Kind == "nowrite":
				res.Count("io_readonly_checked")
				if bytes.Equal(got, e.Content) {
					res.Count("io_readonly_left_identical")
					break
				}
				if probs, _, _ := ref.CheckInjection(e.Content, got); len(probs) > 0 {
					res.Violate("C19|readonly-file-damaged|io-nowrite", fmt.Sprintf("%s is read-only; it is neither byte-identical nor correctly injected: %s: %s (mode %s)", e.Name, probs[0].Kind, probs[0].Detail, mode),
						injWitness{Mode: mode, Class: "io-nowrite", File: e.Name, Before: string(e.Content), After: string(got), Output: trunc(allOut, 800)})
				}
			default:
				res.Count("io_processable_checked")
				probs, ann, _ := ref.CheckInjection(e.Content, got)
				res.Count("io_processable_annotated_fields", int64(ann))
				if len(probs) > 0 {
					kind := probs[0].Kind
					if bytes.Equal(got, e.Content) {
						kind = "left-uninjected"
					}
					res.Violate("C19|"+kind+"|io-fault-neighbour", fmt.Sprintf("%s (%s) in mode %s next to unreadable / read-only files: %s: %s; directory %v", e.Name, e.Kind, mode, kind, probs[0].Detail, listing),
						injWitness{Mode: mode, Class: "io-neighbour", File: e.Name, Before: string(e.Content), After: string(got), Output: trunc(allOut, 800)})
				}
			}
		}
		if d == 0 {
			res.Sample("io-fault-directory", 1, map[string]interface{}{"mode": mode, "entries": listing, "unprivileged_uid": func() int {
				if os.Geteuid() == 0 {
					return nobodyID
				}
				return os.Geteuid()
			}()})
		}
		for _, e := range entries {
			os.Chmod(filepath.Join(dir, e.Name), 0o666)
		}
		os.RemoveAll(dir)
	}

	// Degenerate invocations: nothing to process is not a reason to crash or to touch a bystander.
	dir := filepath.Join(base, "degenerate")
	os.RemoveAll(dir)
	os.MkdirAll(dir, 0o777)
	by := map[string][]byte{}
	for i := 0; i < 3; i++ {
		src, _ := gen.GenGoFile(rng, gen.SrcOpts{Class: "G3"})
		by[fmt.Sprintf("by%d.pb.go", i)] = []byte(src)
	}
	for n, b := range by {
		os.WriteFile(filepath.Join(dir, n), b, 0o644)
	}
	os.WriteFile(filepath.Join(dir, "plain.txt"), []byte("x"), 0o644)
	os.MkdirAll(filepath.Join(dir, "empty"), 0o755)
	inv := [][]string{
		{"-d", filepath.Join(dir, "no-such-dir")},
		{"-d", filepath.Join(dir, "plain.txt")},
		{"-d", filepath.Join(dir, "empty")},
		{"-d", filepath.Join(dir, "by0.pb.go")},
		{"-p", filepath.Join(dir, "[")},
		{"-p", filepath.Join(dir, "[a-")},
		{"-p", filepath.Join(dir, "*.nomatch")},
		{"-p", filepath.Join(dir, "empty", "*")},
		{"-f", filepath.Join(dir, "no-such-file.go")},
		{"-f", filepath.Join(dir, "empty")},
		{"-f", filepath.Join(dir, "plain.txt")},
		{"-f", ""},
		{"-d", ""},
		{"-p", ""},
		{},
	}
	for _, a := range inv {
		run := runCLIAs(c, false, a...)
		res.Eval()
		res.Count("degenerate_invocations")
		c.Journal("C19 degenerate invocation %q", a)
		if run.Crashed || run.ExitCode < 0 || run.ExitCode >= 2 {
			res.Violate("C19|cli-crashed|degenerate-invocation", fmt.Sprintf("CLI %q exit=%d crashed=%v: %s", a, run.ExitCode, run.Crashed, trunc(run.Output, 400)),
				map[string]interface{}{"args": a, "output": run.Output})
		}
		for n, b := range by {
			got, err := os.ReadFile(filepath.Join(dir, n))
			if err != nil || !bytes.Equal(got, b) {
				res.Violate("C19|bystander-changed|degenerate-invocation", fmt.Sprintf("CLI %q changed %s, which it was not asked to process", a, n), map[string]interface{}{"args": a, "file": n})
			}
		}
	}
	os.RemoveAll(dir)
}
