package props

import (
	"fmt"
	"math"
	"math/rand"
	"reflect"
	"strconv"
	"strings"
	"time"

	"gitee.com/xuesongtao/protoc-go-valid/valid"
	"vmon/internal/clause"
	"vmon/internal/core"
	"vmon/internal/drive"
	"vmon/internal/gen"
	"vmon/internal/ref"
)

// C04 — nested validation reaches exactly the marked sub-objects and names them by path.

// A recursive family of named types. Fields named Decoy* / decoy* would produce a clause if the
// walker visited them although it must not (no required/exist marker, unexported, time.Time).
type C04Node struct {
	Name        string                 `valid:"required|m_name"`
	N           int                    `valid:"ge=1|m_n"`
	Kid         *C04Node               `valid:"exist"`
	Kids        []*C04Node             `valid:"exist"`
	ReqKid      *C04Node               `valid:"required|m_reqkid"`
	Vals        []C04Leaf              `valid:"required|m_vals"`
	Arr         [2]C04Leaf             `valid:"exist"`
	ArrP        [2]*C04Leaf            `valid:"exist"`
	M           map[string]C04Leaf     `valid:"exist"`
	MI          map[int]*C04Node       `valid:"exist"`
	MU          map[uint64]C04Leaf     `valid:"exist"`
	MF          map[float64]C04Leaf    `valid:"exist"`
	MMo         map[time.Month]C04Leaf `valid:"exist"` // key types with a String method: the key is named as it prints
	MK          map[C04Key]*C04Leaf    `valid:"required|m_mk"`
	PP          **C04Leaf              `valid:"exist"`
	Both        *C04Leaf               `valid:"required,exist"`
	ByVal       C04Leaf                `valid:"exist"` // a sub-object held by value: skipped only when it IS the zero value
	ByValReq    C04Leaf                `valid:"required|m_byvalreq"`
	DecoyV      C04Leaf                // no marker: never validated
	DecoyP      *C04Leaf               `json:"decoy"`
	DecoyS      []C04Leaf              `json:"decoys"`
	DecoyM      map[string]*C04Leaf    `valid:""`
	decoyHid    C04Leaf                `valid:"required"`
	decoyHidP   *C04Leaf               `valid:"exist"`
	DecoyT      time.Time              `valid:"required"`
	DecoyTP     *time.Time             `valid:"exist"`
	ñDecoy      *C04Leaf               `valid:"required"` // names that start with a non-ASCII lower-case letter are unexported too
	öDecoyL     []C04Leaf              `valid:"exist"`
	ωDecoy      C04Leaf                `valid:"exist"`
	Ints        []int                  `valid:"exist"`
	C04Emb      `valid:"exist"`        // embedded, marked: validated under the path Parent.C04Emb
	C04DecoyEmb                        // embedded, unmarked: never validated
	*C04EmbP    `valid:"required|m_embp"`
}

// C04Key prints through its String method.
type C04Key int

func (k C04Key) String() string { return "key#" + strconv.Itoa(int(k)) }

type C04Emb struct {
	EX string `valid:"required|m_ex"`
}

type C04DecoyEmb struct {
	DecoyEX string `valid:"required|m_decoy_ex"`
}

type C04EmbP struct {
	EPX int `valid:"ge=3|m_epx"`
}

type C04Leaf struct {
	X string `valid:"required|m_x"`
	Y int    `valid:"le=5|m_y"`
	z string `valid:"required"`
	// cross-field groups inside sub-objects: judged per object, named by the object's path
	E1 string `valid:"either=1"`
	E2 int    `valid:"either=1"`
	P1 string `valid:"botheq=2"`
	P2 string `valid:"botheq=2"`
}

func c04Leaf(rng *rand.Rand) C04Leaf {
	l := C04Leaf{}
	if rng.Intn(9) == 0 {
		// not the zero value, although every exported field is empty: a sub-object like any other populated one
		return C04Leaf{z: "set"}
	}
	if rng.Intn(3) != 0 {
		l.X = "x"
	}
	l.Y = rng.Intn(9)
	if rng.Intn(2) == 0 {
		l.E1 = "e"
	}
	l.E2 = rng.Intn(2)
	l.P1 = []string{"", "p", "q"}[rng.Intn(3)]
	l.P2 = l.P1
	if rng.Intn(3) == 0 {
		l.P2 = []string{"", "p", "q"}[rng.Intn(3)]
	}
	return l
}

func c04LeafP(rng *rand.Rand) *C04Leaf {
	if rng.Intn(4) == 0 {
		return nil
	}
	l := c04Leaf(rng)
	return &l
}

// c04Node builds a random acyclic graph with a depth budget.
func c04Node(rng *rand.Rand, depth int) *C04Node {
	n := &C04Node{}
	if rng.Intn(4) != 0 {
		n.Name = "n"
	}
	n.N = rng.Intn(3)
	child := func() *C04Node {
		if depth <= 0 || rng.Intn(3) == 0 {
			return nil
		}
		return c04Node(rng, depth-1)
	}
	n.Kid = child()
	n.ReqKid = child()
	for i, k := 0, rng.Intn(3); i < k && depth > 0; i++ {
		n.Kids = append(n.Kids, child()) // nil elements included
	}
	switch rng.Intn(3) {
	case 0: // nil
	case 1:
		n.Vals = []C04Leaf{}
	default:
		for i, k := 0, 1+rng.Intn(2); i < k; i++ {
			n.Vals = append(n.Vals, c04Leaf(rng))
		}
	}
	if rng.Intn(2) == 0 {
		n.Arr = [2]C04Leaf{c04Leaf(rng), c04Leaf(rng)}
	}
	if rng.Intn(2) == 0 {
		n.ArrP = [2]*C04Leaf{c04LeafP(rng), c04LeafP(rng)}
	}
	switch rng.Intn(3) {
	case 1:
		n.M = map[string]C04Leaf{}
	case 2:
		n.M = map[string]C04Leaf{"k1": c04Leaf(rng)}
		if rng.Intn(2) == 0 {
			n.M["k 2"] = c04Leaf(rng)
		}
		if rng.Intn(3) == 0 {
			// keys as they are: the empty key, a backslash, a tab, a control character, a non-printable rune
			n.M[""] = c04Leaf(rng)
			n.M[`C:\data`] = c04Leaf(rng)
			n.M["t\tb"] = c04Leaf(rng)
			n.M["bell\x07"] = c04Leaf(rng)
			n.M["\u200bzw"] = c04Leaf(rng)
		}
	}
	if depth > 0 && rng.Intn(3) == 0 {
		n.MI = map[int]*C04Node{-7: child(), 3: child()}
	}
	if rng.Intn(4) == 0 {
		n.MF = map[float64]C04Leaf{math.NaN(): c04Leaf(rng), 1.5: c04Leaf(rng)} // an entry under a key that is not equal to itself
		if rng.Intn(2) == 0 {
			// keys Go prints with an exponent (2.5e+06, 1e-06, 1e+21): the entry is named as the key prints
			n.MF[2500000] = c04Leaf(rng)
			n.MF[0.000001] = c04Leaf(rng)
			n.MF[1e21] = c04Leaf(rng)
		}
	}
	if rng.Intn(3) == 0 {
		n.MMo = map[time.Month]C04Leaf{time.March: c04Leaf(rng), 14: c04Leaf(rng)}
	}
	if rng.Intn(2) == 0 {
		n.MK = map[C04Key]*C04Leaf{3: c04LeafP(rng), -1: c04LeafP(rng)}
	}
	if rng.Intn(3) == 0 {
		n.MU = map[uint64]C04Leaf{1 << 63: c04Leaf(rng), ^uint64(0): c04Leaf(rng), 5: c04Leaf(rng)}
	}
	if rng.Intn(2) == 0 {
		p := c04LeafP(rng)
		n.PP = &p
	}
	n.Both = c04LeafP(rng)
	if rng.Intn(2) == 0 {
		n.ByVal = c04Leaf(rng)
	}
	if rng.Intn(3) != 0 {
		n.ByValReq = c04Leaf(rng)
	}
	// decoys: all of them would fail if visited
	n.DecoyV = C04Leaf{Y: 9}
	n.DecoyP = &C04Leaf{Y: 9}
	n.DecoyS = []C04Leaf{{Y: 9}}
	n.DecoyM = map[string]*C04Leaf{"d": {Y: 9}}
	n.decoyHidP = &C04Leaf{Y: 9}
	n.öDecoyL = []C04Leaf{{Y: 9}}
	n.ωDecoy = C04Leaf{Y: 9}
	n.DecoyTP = &time.Time{}
	if rng.Intn(2) == 0 {
		n.Ints = []int{1, 2}
	}
	if rng.Intn(2) == 0 {
		n.C04Emb.EX = "e"
	}
	if rng.Intn(3) != 0 {
		n.C04EmbP = &C04EmbP{EPX: rng.Intn(6)}
	}
	return n
}

func init() {
	core.Register(&core.Prop{
		ID: "C04",
		Rule: "(a0) chains of 8..130 objects through a pointer, a slice and a map with dotted keys, valid except the last object; slices of 9..130 objects with the one violation at index 0 / 9 / 10 / 11 / 99 / 100 / 101 (field, top-level, top-level pointers); top-level collections of non-structs; (a) random acyclic object graphs of a recursive family of named types (depth 0-4 quick, 0-5 thorough; embedded structs marked and unmarked; every container form: *T, **T, []T, []*T, [2]T, [2]*T, map[string]T, map[int]*T, maps keyed by uint64, float64 (NaN) and types with a String method; each node independently nil / zero / populated; nil elements; decoy sub-objects on unmarked, unexported and time.Time fields that would fail if visited) through T, *T, **T, []T, []*T, [n]T, map[string]T and map[int]*T top-level inputs; " +
			"(b) struct types synthesised with reflect.StructOf, nesting depth <= 4, struct-valued fields independently tagged required / exist / both / neither. The (path, rule-instance) pairs of the returned error must equal the reference validator's recursive descent. distinct = distinct (type, value) rendering; non-trivial = at least one clause expected below the top level or a decoy present",
		Shards: func(t core.Tier) int { return 16 },
		Run:    runC04,
		Check: func(r *core.Result, t core.Tier) {
			for k, min := range map[string]int64{"clauses_depth3plus_expected": 1000, "graphs_with_decoys": 500, "nil_elements_in_marked_containers": 200, "top|slice": 50, "top|ptrslice": 50, "top|array": 50, "top|map": 50, "top|intmap": 50, "top|ptrptr": 50, "structof_cases": 200} {
				if r.Counters[k] < min {
					r.Inconc(fmt.Sprintf("under-observed: %s=%d (minimum %d)", k, r.Counters[k], min))
				}
			}
		},
	})
}

var c04DecoyMarks = []string{"Decoy", "decoy", ".z\""}

func runC04(c *core.Ctx) {
	res := c.Res
	res.Assume("object graphs are acyclic by construction (depth budget)")
	res.Assume("entries of Go maps are compared as multisets; paths of anonymous (StructOf) types follow the library's naming rule reproduced by the reference")
	rng := c.Rng("graphs")
	N := c.Pick(1200, 9000)
	for i := 0; i < N; i++ {
		depth := rng.Intn(c.Pick(5, 6))
		mk := func() *C04Node { return c04Node(rng, depth) }
		var in interface{}
		top := ""
		switch rng.Intn(9) {
		case 0:
			top, in = "value", *mk()
		case 1:
			top, in = "ptr", mk()
		case 2:
			p := mk()
			top, in = "ptrptr", &p
		case 3:
			s := []C04Node{}
			for k := rng.Intn(3); k > 0; k-- {
				s = append(s, *mk())
			}
			top, in = "slice", s
		case 4:
			s := []*C04Node{}
			for k := 1 + rng.Intn(3); k > 0; k-- {
				if rng.Intn(4) == 0 {
					s = append(s, nil)
					res.Count("nil_elements_in_marked_containers")
				} else {
					s = append(s, mk())
				}
			}
			top, in = "ptrslice", s
		case 5:
			top, in = "array", [2]C04Node{*mk(), {}}
		case 6:
			top, in = "map", map[string]C04Node{"a": *mk(), "b c": *mk()}
		case 7:
			top, in = "intmap", map[int]*C04Node{5: mk(), -2: nil, 0: mk()}
		default:
			top, in = "ptr", mk()
		}
		res.Count("top|" + top)
		res.Count("graphs_with_decoys")
		c04Case(res, "named|"+top, in, i)
		countNilElems(res, reflect.ValueOf(in), 0)
	}

	if c.Shard == 0 {
		c04NonStructCollections(res)
	}
	if c.Shard == 1%c.Of {
		c04DeepChains(res)
	}
	if c.Shard == 2%c.Of {
		c04Wide(res)
	}

	// (b) synthesised types, deeper than C02's
	seq := 0
	plan := tagPlan{TagNames: []string{"valid"}, Style: gen.MsgUnique, MaxRules: 2, Unknown: true, seq: &seq} // names nobody registered: their clause carries the path like any other
	to := gen.TypeOpts{MaxFields: 3, MaxDepth: 4, Leaf: []reflect.Type{gen.TString, gen.TInt, gen.TUint8, gen.TFloat64}, Unexported: true, Ptr: true, PtrPtr: true, Slices: true, Arrays: true, Maps: true, Tag: plan.ruleTag}
	M := c.Pick(400, 4000)
	for i := 0; i < M; i++ {
		t := gen.RandStruct(rng, to)
		if i%40 == 7 {
			t = c04WideType(rng, i) // 65-90 fields: marked sub-objects beyond field index 63
			res.Count("wide_struct_cases")
		}
		v := tunedFill(rng, t, "valid", 0.2)
		res.Count("structof_cases")
		c04Case(res, "structof", ptrTo(v).Interface(), i)
	}
}

// C04Chain: depth is not bounded. A list of 31..70 nodes through a pointer field, through a slice
// field, and through a map field whose keys contain dots (the rendered path is text, not a depth
// counter); every node is valid except the last one.
type C04Chain struct {
	V    int                  `valid:"ge=1|m_v"`
	Next *C04Chain            `valid:"exist"`
	L    []C04Chain           `valid:"exist"`
	M    map[string]*C04Chain `valid:"required|m_m"`
}

func c04Chain(n int, how int) *C04Chain {
	head := &C04Chain{V: 1, M: map[string]*C04Chain{"ok": nil}}
	cur := head
	for i := 1; i < n; i++ {
		nx := &C04Chain{V: 1, M: map[string]*C04Chain{"ok": nil}}
		if i == n-1 {
			nx.V = -5 // the one violation, at the far end
		}
		switch how {
		case 0:
			cur.Next = nx
		case 1:
			cur.L = []C04Chain{*nx}
			nx = &cur.L[0]
		default:
			cur.M = map[string]*C04Chain{"10.0.0." + strconv.Itoa(i%250): nx}
		}
		cur = nx
	}
	return head
}

// c04Wide: collections of 9..130 elements with the one violation at a chosen index (indexes with
// one, two and three digits; the path names the element by its decimal index).
func c04Wide(res *core.Result) {
	i := 0
	for _, n := range []int{9, 10, 11, 12, 20, 21, 99, 100, 101, 111, 130} {
		for _, bad := range []int{0, 9, 10, 11, 19, 20, 99, 100, 101, 110} {
			if bad >= n {
				continue
			}
			mk := func() []C04Chain {
				l := make([]C04Chain, n)
				for k := range l {
					l[k] = C04Chain{V: 1, M: map[string]*C04Chain{"ok": nil}}
				}
				l[bad].V = -5
				return l
			}
			res.Count("wide_collection_cases")
			c04Case(res, "wide|field", &C04Chain{V: 1, M: map[string]*C04Chain{"ok": nil}, L: mk()}, 3000+i)
			c04Case(res, "wide|top", mk(), 4000+i)
			ps := []*C04Chain{}
			for _, x := range mk() {
				x := x
				ps = append(ps, &x)
			}
			c04Case(res, "wide|top-ptr", ps, 5000+i)
			i++
		}
	}
}

func c04DeepChains(res *core.Result) {
	i := 0
	for _, n := range []int{8, 16, 31, 32, 33, 34, 40, 64, 65, 70, 130} {
		for how := 0; how < 3; how++ {
			res.Count("deep_chain_cases")
			c04Case(res, fmt.Sprintf("chain|%d", how), c04Chain(n, how), 1000+i)
			c04Case(res, fmt.Sprintf("chain-slice|%d", how), []*C04Chain{c04Chain(n, how), nil, c04Chain(n/2+1, how)}, 2000+i)
			i++
		}
	}
}

// c04NonStructCollections: top-level slices / arrays / maps whose elements are not structs hold no
// reachable rule at all: the call returns nil (collections of collections, nil pointers and nil
// elements included).
func c04NonStructCollections(res *core.Result) {
	one := 1
	var np *int
	ins := []interface{}{
		[]int{1, 2, 3}, []string{"a", ""}, map[string]int{"a": 1, "b": 0}, map[int]string{1: "x"}, [2]float64{1, 2}, []*int{&one, nil, np},
		[][]int{{1}, nil}, map[string][]string{"k": {"v"}}, []interface{}{1, "a", nil}, map[string]interface{}{"k": 1, "n": nil}, []*C04Leaf{nil, nil}, map[string]*C04Node{"gone": nil},
		&[]int{4}, []**int{}, [0]int{}, []bool{true, false}, []C04Key{1}, map[C04Key]int{2: 2},
	}
	for i, in := range ins {
		in := in
		out := drive.Call(func() error { return valid.Struct(in) })
		res.Eval()
		res.Count("top_level_collections_of_non_structs")
		res.DistinctEnum(1)
		if out.Panic != "" || !out.Nil {
			res.Violate("C04|top-collection-of-non-structs", fmt.Sprintf("Struct(%T %+v) returned %s; no rule is reachable (the elements are not structs), the call must return nil", in, in, out),
				map[string]interface{}{"case": i, "type": fmt.Sprintf("%T", in), "library_returned": out.String()})
		}
	}
}

func countNilElems(res *core.Result, v reflect.Value, depth int) {
	if depth > 3 || !v.IsValid() {
		return
	}
	switch v.Kind() {
	case reflect.Ptr:
		if !v.IsNil() {
			countNilElems(res, v.Elem(), depth)
		}
	case reflect.Struct:
		if n, ok := v.Interface().(C04Node); ok {
			for _, k := range n.Kids {
				if k == nil {
					res.Count("nil_elements_in_marked_containers")
				}
			}
			for _, k := range n.ArrP {
				if k == nil && n.ArrP != [2]*C04Leaf{} {
					res.Count("nil_elements_in_marked_containers")
				}
			}
		}
	}
}

func c04Case(res *core.Result, class string, in interface{}, idx int) {
	env := &ref.Env{Tag: "valid"}
	exps, entryErr := env.ExpectStruct(in)
	out := drive.Call(func() error { return valid.Struct(in) })
	wit := vWitness{Entry: "Struct", Type: fmt.Sprintf("%T", in), Value: describeValue(reflect.ValueOf(in))}
	if len(wit.Type) > 300 {
		wit.Type = trunc(wit.Type, 300)
	}
	judged, ok := compareCall(res, "C04|"+class, "", out, exps, entryErr, env, true, wit)
	if !judged {
		return
	}
	noteExps(res, exps)
	deep := false
	for _, x := range exps {
		if strings.Count(x.Path, ".") >= 2 || strings.Contains(x.Path, "[") {
			deep = true
		}
	}
	if deep || strings.HasPrefix(class, "named") {
		res.Distinct(class + "|" + wit.Value)
	}
	// independent of the reference: no clause may name a decoy
	if !out.Nil && out.Panic == "" {
		for _, cl := range clause.Parse(out.Err) {
			for _, d := range c04DecoyMarks {
				if strings.Contains(cl.Path, d) || (d == ".z\"" && strings.HasSuffix(cl.Path, ".z")) {
					res.Violate("C04|"+class+"|decoy-visited", fmt.Sprintf("clause %q names a sub-object that must never be validated (no required/exist marker, unexported, or time.Time)", cl.Raw), wit)
				}
			}
		}
	}
	if ok && idx < 2 && len(exps) >= 2 {
		res.Sample(class, 1, map[string]interface{}{"input": trunc(wit.Value, 500), "library_returned": trunc(out.String(), 600)})
	}
}

// c04WideType: a struct with 65-90 fields whose marked sub-objects sit at high field indexes.
func c04WideType(rng *rand.Rand, id int) reflect.Type {
	n := 65 + rng.Intn(26)
	leaf := reflect.TypeOf(C04Leaf{})
	fields := make([]reflect.StructField, n)
	for f := range fields {
		name := fmt.Sprintf("W%d", f)
		switch {
		case f >= 60 && rng.Intn(3) == 0:
			fields[f] = reflect.StructField{Name: name, Type: reflect.PointerTo(leaf), Tag: reflect.StructTag(fmt.Sprintf(`valid:"required|m_w%d_%d"`, id, f))}
		case f >= 60 && rng.Intn(3) == 0:
			fields[f] = reflect.StructField{Name: name, Type: reflect.SliceOf(leaf), Tag: `valid:"exist"`}
		case rng.Intn(4) == 0:
			fields[f] = reflect.StructField{Name: name, Type: gen.TString, Tag: reflect.StructTag(fmt.Sprintf(`valid:"required|m_w%d_%d"`, id, f))}
		default:
			fields[f] = reflect.StructField{Name: name, Type: gen.TInt}
		}
	}
	return reflect.StructOf(fields)
}
