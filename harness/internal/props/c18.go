package props

import (
	"fmt"
	"math"
	"math/rand"
	"net/url"
	"reflect"
	"regexp"
	"sort"
	"strings"
	"unicode/utf8"

	"gitee.com/xuesongtao/protoc-go-valid/valid"
	"vmon/internal/clause"
	"vmon/internal/core"
	"vmon/internal/drive"
	"vmon/internal/gen"
	"vmon/internal/ref"
)

// C18 — the same rule on the same value gives the same verdict through every entry point.
//
// Relational monitor, no model needed for the verdict: every rule instance carries a unique custom
// message, the set of messages present in each carrier's error is extracted and all sets must be
// equal. The reference validator is consulted only to name the odd one out in the witness.

var c18Types = []reflect.Type{gen.TString, gen.TString, gen.TString, gen.TBool, gen.TInt, gen.TInt8, gen.TInt16, gen.TInt32, gen.TInt64, gen.TUint, gen.TUint8, gen.TUint16, gen.TUint32, gen.TUint64, gen.TFloat32, gen.TFloat64, gen.TGInt, gen.TGStr, gen.TGUint, gen.TGBool}

// strings that matter for URL transport
var c18UrlStrings = []string{"hello world", "a b c", " lead", "trail ", "a  b", "x+y z", "a&b", "a=b", "p&q=r", "a+b", "100%", "a b", "?x", "#frag", "测试&调", "a%26b", "%41", "a;b", "1+1=2", "x&", "=", "&", "a/b?c", "é=ü", "a;b;c", ";x", "x;", "测;试", "a;;b",
	// bytes that are not valid UTF-8 (a Latin-1 / GBK form value): the value is what was sent, byte for byte
	"caf\xe9", "\xd6\xd0", "a\xffb", "\xe9",
	// control characters
	"ab\tcd", "a\nb", "x\x7f", "\x01",
	// texts that a numeric reading would call zero, false or nothing: as strings they are supplied values like any other
	"0", "00", "0.0", "-0", "false", "null", "nil", "0x0", "+0", " "}

var reC18Msg = regexp.MustCompile(`\|(m|必)_[0-9A-Za-z_]+`)

func c18Markers(o drive.Out) (set []string, other []string) {
	if o.Nil || o.Panic != "" {
		return nil, nil
	}
	for _, cl := range clause.Parse(o.Err) {
		if cl.Kind == clause.Input && (strings.HasPrefix(cl.Text, "m_") || strings.HasPrefix(cl.Text, "必_")) {
			set = append(set, cl.Text)
		} else {
			other = append(other, cl.Raw)
		}
	}
	sort.Strings(set)
	return
}

func init() {
	core.Register(&core.Prop{
		ID: "C18",
		Rule: "one scalar value (string incl. characters that matter for URL transport: & = + % ? # space CJK; bool; all int / uint widths; float32/64) under a list of 1-4 rules that the documentation marks as supported by all inputs, every rule instance with a unique custom message; presented as struct field (tag and RM; alone and between time.Time, string and integer neighbours), Var, map[string]T, map[string]interface{}, []map[string]T and, for strings, Url in raw form (unreserved characters only), percent-encoded form with the parameter first / middle / last among 0-4 decoys, and whole-URL-encoded form. " +
			"The set of rule instances reported must be identical for all carriers. distinct = distinct (type, value, rule list); non-trivial = at least one rule reported by some carrier",
		Shards: func(t core.Tier) int { return 16 },
		Run:    runC18,
		Check: func(r *core.Result, t core.Tier) {
			for _, cr := range []string{drive.Var, drive.StructRM, drive.StructTag, drive.StructCtx, drive.MapT, drive.SliceMap, "url-enc-decoys", drive.UrlEncFull, drive.UrlRaw, drive.UrlPtr} {
				if r.Counters["compared_nonempty|"+cr] < 300 {
					r.Inconc(fmt.Sprintf("carrier compared on too few tuples with a non-empty marker set: %s=%d", cr, r.Counters["compared_nonempty|"+cr]))
				}
			}
			if r.Counters["url_value_with_reserved_chars"] < 200 {
				r.Inconc("too few URL values containing reserved characters")
			}
		},
	})
}

func runC18(c *core.Ctx) {
	res := c.Res
	res.Assume("rule lists use only rules marked as supported by struct, var, map and url inputs (everything except exist, either, botheq); arguments are valid for the value's kind")
	res.Assume("a whole-URL-encoded carrier is used only when the value contains no '&' or '=' (after the single un-escape they could not be told from separators)")
	rng := c.Rng("c18")
	N := c.Pick(6000, 120000)
	for i := 0; i < N; i++ {
		t := c18Types[rng.Intn(len(c18Types))]
		rules := gen.RuleList(rng, t, 4, fmt.Sprintf("%d", i), gen.MsgUnique, false)
		rules = strings.Trim(rules, ",")
		for strings.Contains(rules, ",,") {
			rules = strings.ReplaceAll(rules, ",,", ",")
		}
		if rules == "" {
			continue
		}
		if rng.Intn(9) == 0 {
			// several rules of one field with the SAME message (one wording for "bad value"): as many clauses as violated
			// rules, through every carrier — the marker lists are compared with their multiplicities
			rules = reC18Msg.ReplaceAllString(rules, fmt.Sprintf("|m_%d_same", i))
			res.Count("rule_lists_with_one_shared_message")
		}
		v := gen.TunedLeaf(rng, t, rules, 0.08)
		if t.Kind() == reflect.String && rng.Intn(4) == 0 {
			s := c18UrlStrings[rng.Intn(len(c18UrlStrings))]
			v = reflect.ValueOf(s)
			// content-sensitive rules derived from the value itself (a transport that changes one
			// character without changing the length must change a verdict)
			if c18RuleSafe(s) {
				rs := []rune(s)
				extra := []string{
					fmt.Sprintf("in=(%s/zz)|m_%d_vin", s, i), fmt.Sprintf("in=(zz/%sx)|m_%d_vnin", s, i),
					fmt.Sprintf("suffix=%s|m_%d_vsuf", string(rs[len(rs)/2:]), i), fmt.Sprintf("prefix=%s|m_%d_vpre", string(rs[:len(rs)/2+1]), i),
					fmt.Sprintf("include=(%s)|m_%d_vinc", string(rs[len(rs)/3:len(rs)/3+1+len(rs)/3]), i), fmt.Sprintf("eq=%d|m_%d_veq", len(rs), i),
				}
				rng.Shuffle(len(extra), func(a, b int) { extra[a], extra[b] = extra[b], extra[a] })
				rules = strings.Join(append(extra[:1+rng.Intn(3)], rules), ",")
			}
		}
		if (t.Kind() == reflect.Float64 || t.Kind() == reflect.Float32) && rng.Intn(12) == 0 {
			v = reflect.New(t).Elem()
			v.SetFloat(math.Copysign(0, -1)) // negative zero: whatever "empty" means for it, it means it for every carrier
		}
		c18Case(res, rng, t, v, rules, i)
	}
}

// c18RuleSafe: the string can be written inside in=(...) / prefix= / suffix= without touching the
// rule syntax (no separators, brackets, quotes, pipes, commas) and has no surrounding blanks that a
// rule argument could not carry.
func c18RuleSafe(s string) bool {
	if s == "" || strings.ContainsAny(s, "/()'|,=~\\\"") || !utf8.ValidString(s) {
		return false // (a struct tag cannot carry invalid UTF-8 unchanged)
	}
	return true
}

func c18Case(res *core.Result, rng *rand.Rand, t reflect.Type, v reflect.Value, rules string, idx int) {
	type obs struct {
		carrier string
		out     drive.Out
		set     []string
		other   []string
	}
	var all []obs
	add := func(cr string, o drive.Out) {
		s, oth := c18Markers(o)
		all = append(all, obs{cr, o, s, oth})
	}
	for _, cr := range []string{drive.Var, drive.StructRM, drive.StructTag, drive.StructCtx, drive.MapT, drive.MapIface, drive.SliceMap, drive.UrlRaw, drive.UrlEncFull, drive.UrlPtr} {
		if o, ok := drive.Carry(cr, v, rules); ok {
			add(cr, o)
		}
	}
	if t.Kind() == reflect.String {
		s := v.String()
		if strings.ContainsAny(s, "&=+%?# ;") {
			res.Count("url_value_with_reserved_chars")
		}
		// percent-encoded key and value among decoys, the parameter first / middle / last
		nd := rng.Intn(5)
		pos := 0
		if nd > 0 {
			pos = rng.Intn(nd + 1)
		}
		q := []string{}
		key := []string{"k", "k", "k[]", "键", "k k", "k+1"}[rng.Intn(6)] // names that need percent-encoding too
		for d := 0; d < nd+1; d++ {
			if d == pos {
				q = append(q, url.QueryEscape(key)+"="+url.QueryEscape(s))
			} else {
				q = append(q, fmt.Sprintf("d%d=%s", d, url.QueryEscape([]string{"x", "", "a&k=zzz", "k"}[rng.Intn(4)])))
			}
		}
		u := "http://h.example/p?" + strings.Join(q, "&")
		rulesK := rules
		if key != "k" && s != "" {
			rulesK = "required|m_req_key," + rules // the parameter is present: required must not fire (unless the value is empty, as for every carrier)
		}
		o := drive.Call(func() error { return valid.Url(u, valid.RM{key: rulesK}) })
		if key != "k" && s != "" && !o.Nil && strings.Contains(o.Err, "m_req_key") {
			res.Violate("C18|url-enc-decoys|present-parameter-reported-missing", fmt.Sprintf("Url(%q) with a rule on parameter %q reports it as required although it is present and non-empty: %s", u, key, trunc(o.Err, 300)), map[string]string{"url": u, "key": key, "rules": rulesK, "returned": o.Err})
		}
		add("url-enc-decoys", o)
		// two ruled parameters among parameters without a rule, in every order: each is judged, none is
		// reported missing (the second one, k2=zz under eq=5, always fails its own rule)
		{
			ps := []string{url.QueryEscape("k") + "=" + url.QueryEscape(s), "k2=zz"}
			for d := 0; d < 1+rng.Intn(3); d++ {
				ps = append(ps, fmt.Sprintf("free%d=%s", d, []string{"home", "", "1"}[rng.Intn(3)]))
			}
			rng.Shuffle(len(ps), func(a, b int) { ps[a], ps[b] = ps[b], ps[a] })
			u2 := []string{"http://h.example/p?", "/p?", "h.example?"}[rng.Intn(3)] + strings.Join(ps, "&")
			o2 := drive.Call(func() error { return valid.Url(u2, valid.RM{"k": rules, "k2": "required|m_k2r,eq=5|m_k2x"}) })
			switch {
			case o2.Panic != "":
			case !strings.Contains(o2.Err, "m_k2x"):
				res.Violate("C18|url-two-ruled|second-parameter-not-judged", fmt.Sprintf("Url(%q): parameter k2=zz under eq=5 is not reported: %s", u2, trunc(o2.String(), 300)), map[string]string{"url": u2, "rules": rules, "returned": o2.String()})
			case strings.Contains(o2.Err, "m_k2r"):
				res.Violate("C18|url-two-ruled|present-parameter-reported-missing", fmt.Sprintf("Url(%q): parameter k2 is present but reported as required: %s", u2, trunc(o2.Err, 300)), map[string]string{"url": u2, "rules": rules, "returned": o2.Err})
			}
			st, oth := c18Markers(o2)
			kept := []string{}
			for _, m := range st {
				if m != "m_k2x" {
					kept = append(kept, m)
				}
			}
			all = append(all, obs{"url-two-ruled", o2, kept, oth})
			res.Count("url_two_ruled_parameters")
		}
		// a bare query string ("?k=v", no scheme / host / path)
		bq := "?" + url.QueryEscape("k") + "=" + url.QueryEscape(s) + "&z=1"
		add("url-bare-query", drive.Call(func() error { return valid.Url(bq, valid.RM{"k": rules}) }))
	}
	res.Eval()
	// majority / reference for the witness
	env := &ref.Env{}
	exps := env.ExpectVar(v, rules)
	refSet := []string{}
	for _, x := range exps {
		if x.Kind == "input" && x.Msg != "" {
			refSet = append(refSet, x.Msg)
		}
	}
	sort.Strings(refSet)
	base := all[0]
	nonEmpty := false
	for _, o := range all {
		if len(o.set) > 0 {
			nonEmpty = true
		}
	}
	if nonEmpty {
		res.Distinct(t.String() + "|" + valStr(v) + "|" + rules)
	}
	for _, o := range all {
		if nonEmpty {
			res.Count("compared_nonempty|" + o.carrier)
		}
		wit := map[string]interface{}{"type": t.String(), "value": valStr(v), "rules": rules, "carrier": o.carrier, "returned": o.out.String(), "var_returned": base.out.String(), "reference_set": refSet}
		if o.out.Panic != "" {
			res.Violate("C18|"+o.carrier+"|panic", fmt.Sprintf("%s panicked on %s %s under %q: %s", o.carrier, t, valStr(v), rules, o.out.Panic), wit)
			continue
		}
		if len(o.other) > 0 {
			// a clause that is not one of the rule instances (e.g. "is no support"): the rule list is
			// made of rules supported by every input, so this is a carrier-specific refusal
			sg := "C18|" + o.carrier + "|unexpected-clause"
			if o.carrier == drive.MapIface {
				sg = "C18|map-iface|differs"
			}
			res.Violate(sg, fmt.Sprintf("%s returned a clause that belongs to no rule instance: %q (value %s %s, rules %q)", o.carrier, trunc(o.other[0], 300), t, valStr(v), rules), wit)
			continue
		}
		if strings.Join(o.set, "\x00") == strings.Join(base.set, "\x00") {
			continue
		}
		odd := o.carrier
		if !env.Unspec && strings.Join(o.set, "\x00") == strings.Join(refSet, "\x00") {
			odd = base.carrier
		}
		dir := "reports-more"
		if len(o.set) < len(base.set) {
			dir = "reports-less"
		}
		if odd == base.carrier {
			dir = "var-differs"
		}
		sig := "C18|" + odd + "|" + dir
		if o.carrier == drive.MapIface {
			sig = "C18|map-iface|differs"
		}
		res.Violate(sig, fmt.Sprintf("%s %s under %q: %s reports %v but %s reports %v (reference: %v)", t, valStr(v), rules, o.carrier, o.set, base.carrier, base.set, refSet), wit)
	}
	if idx < 3 && nonEmpty {
		res.Sample("tuple", 3, map[string]interface{}{"type": t.String(), "value": valStr(v), "rules": rules, "carriers": len(all), "reported_by_all": base.set})
	}
}
