package props

import (
	"fmt"
	"math/rand"
	"os"
	"os/exec"
	"path/filepath"
	"reflect"
	"regexp"
	"strconv"
	"strings"
	"unsafe"

	"gitee.com/xuesongtao/protoc-go-valid/valid"
	"vmon/internal/core"
	"vmon/internal/drive"
	"vmon/internal/gen"
)

// C13 — validation is total: bad input or bad rules yield an error, never a crash.

type c13Node struct {
	A  string              `valid:"required"`
	N  int                 `valid:"ge=0"`
	P  *c13Node            `valid:"exist"`
	PP **c13Node           `valid:"exist"`
	S  []*c13Node          `valid:"exist"`
	V  []c13Node           `valid:"exist"`
	M  map[string]*c13Node `valid:"exist"`
	R  *c13Node            `valid:"required"`
	I  interface{}         `valid:"required"`
	E1 string              `valid:"either=1"`
	E2 string              `valid:"either=1"`
	// unexported fields (non-zero in some inputs) that rule maps name all the same
	hidden int
	secret []string
	inner  *c13Node
}

type c13Odd struct {
	C  chan int       `valid:"required"`
	F  func()         `valid:"required"`
	X  complex128     `valid:"required,ge=1"`
	U  unsafe.Pointer `valid:"required"`
	I  interface{}    `valid:"exist"`
	PI *int           `valid:"required"`
	PS *string        `valid:"exist"`
	MI map[int]string `valid:"required,unique"`
	A  [2]string      `valid:"required,unique,ints"`
	B  bool           `valid:"required,in=(true)"`
	AA [0]int         `valid:"required"`
	SS [][]string     `valid:"required,unique"`
	MM map[string]int `valid:"exist"`
	SI []interface{}  `valid:"exist,unique"`
}

// Field names that start with a caseless letter are legal Go identifiers but NOT exported; reading
// them through reflect.Value.Interface() panics.
type c13Caseless struct {
	数量 int      `valid:"required,eq=3,in=(1/2)"`
	名称 string   `valid:"required,in=(a/b),unique"`
	שם []int    `valid:"required,unique,ints"`
	ある string   `valid:"botheq=1"`
	いる string   `valid:"botheq=1"`
	A  string   `valid:"required"`
	子  *c13Node `valid:"exist"`
}

// defined string types as map keys (kind string, but not the type string)
type c13Key string

type c13Call struct {
	Entry string
	Desc  string
	Fn    func() error
}

func c13Report(res *core.Result, entry, desc string, out drive.Out) {
	res.Eval()
	res.Count("calls|" + entry)
	if out.Panic == "" {
		if !out.Nil {
			res.Count("returned_error")
		} else {
			res.Count("returned_nil")
		}
		return
	}
	// signature: innermost library function + panic message without type names / numbers
	msg := out.Panic
	for _, cut := range []string{"non-map type", "interface conversion:", "on zero Value"} {
		if i := strings.Index(msg, cut); i >= 0 {
			msg = msg[:i+len(cut)]
		}
	}
	sig := "C13|" + out.PanicFn + "|" + core.NormMsg(msg)
	res.Violate(sig, fmt.Sprintf("%s panicked in %s: %s — input: %s", entry, out.PanicFn, out.Panic, trunc(desc, 500)), map[string]string{"entry": entry, "input": desc, "panic": out.Panic, "function": out.PanicFn})
}

func c13Catalogue() []c13Call {
	var nilNode *c13Node
	pp := &nilNode
	one := &c13Node{A: "x"}
	ppOne := &one
	var nilMapPtr *map[string]string
	mp := map[string]string{"a": "1"}
	var nilStr *string
	str := "http://x.example/p?a=1&b=2"
	var nilInt *int
	five := 5
	var nilIface interface{}
	rm := valid.RM{"a": "required,to=1~3", "A": "required", "b": "int"}
	noop := func(errBuf *strings.Builder, validName, objName, fieldName string, tv reflect.Value) {}
	ch := make(chan int)
	odd := c13Odd{C: ch, F: func() {}, X: 2 + 3i, U: unsafe.Pointer(&five), I: 5, PI: &five, PS: &str, MI: map[int]string{1: "a"}, A: [2]string{"1", "1"}, B: true, SS: [][]string{{"a"}, {"a"}}, MM: map[string]int{"a": 1}, SI: []interface{}{1, nil, "x"}}
	type vals struct {
		name string
		v    interface{}
	}
	structish := []vals{
		{"untyped nil", nil}, {"(*T)(nil)", nilNode}, {"**T -> nil", pp}, {"**T -> T", ppOne}, {"[]*T{nil}", []*c13Node{nil}}, {"[]*T{nil,&T}", []*c13Node{nil, one}},
		{"map[string]*T{k:nil}", map[string]*c13Node{"k": nil}}, {"map[int]*T", map[int]*c13Node{1: one, 2: nil}}, {"[]T{}", []c13Node{}}, {"[]T(nil)", []c13Node(nil)}, {"[]int{1}", []int{1}},
		{"[2]*T{nil,nil}", [2]*c13Node{}}, {"int 5", 5}, {"string", "s"}, {"float", 1.5}, {"bool", true}, {"chan", ch}, {"func", func() {}}, {"map[int]string", map[int]string{1: "a"}},
		{"*map", &mp}, {"(*map)(nil)", nilMapPtr}, {"nil interface in var", nilIface}, {"*int", &five}, {"(*int)(nil)", nilInt}, {"[]interface{}{nil}", []interface{}{nil}}, {"[]interface{}{&T,nil,5}", []interface{}{one, nil, 5}},
		{"T{P:nil elements}", c13Node{A: "x", S: []*c13Node{nil}, M: map[string]*c13Node{"k": nil}, V: []c13Node{{}}, R: one}},
		{"&T{PP->nil}", &c13Node{A: "x", PP: pp, R: one, I: 1}}, {"&T{PP->T}", &c13Node{A: "x", PP: ppOne, R: one, I: one}},
		{"&T{I: nil *T}", &c13Node{A: "x", I: nilNode, R: one}}, {"&T{I: struct}", &c13Node{A: "x", I: c13Node{}, R: one}},
		{"odd kinds", odd}, {"&odd zero", &c13Odd{}}, {"caseless field names", &c13Caseless{数量: 5, 名称: "zz,zz", שם: []int{1, 1}, ある: "x", いる: "y", 子: one}}, {"caseless zero", c13Caseless{}}, {"[]*odd{nil}", []*c13Odd{nil, &odd}},
		{"*[]T", &[]c13Node{{A: ""}}}, {"*[]*T{nil}", &[]*c13Node{nil}}, {"struct{}", struct{}{}}, {"*struct{}", &struct{}{}},
		// empty and nil collections of every wrong shape (what the first element would have refused is never reached)
		{"map[int]string{}", map[int]string{}}, {"map[int]string(nil)", map[int]string(nil)}, {"map[float64]int{}", map[float64]int{}}, {"map[struct]string{}", map[struct{ A int }]string{}},
		{"*map[int]string{}", &map[int]string{}}, {"[]map[int]string{{},nil}", []map[int]string{{}, nil}}, {"map[bool]*T(nil)", map[bool]*c13Node(nil)}, {"map[interface{}]int{}", map[interface{}]int{}},
		{"map[string]string{}", map[string]string{}}, {"map[string]interface{}(nil)", map[string]interface{}(nil)}, {"[]map[string]string{}", []map[string]string{}}, {"[]map[string]string{nil}", []map[string]string{nil}},
		{"[0]T{}", [0]c13Node{}}, {"[0]*T{}", [0]*c13Node{}}, {"[]*T{}", []*c13Node{}}, {"[]interface{}{}", []interface{}{}}, {"map[string][]int{}", map[string][]int{}}, {"*[]map[int]int{}", &[]map[int]int{}},
		{"map[string]T", map[string]c13Node{"k": {}}}, {"map[*T]T", map[*c13Node]c13Node{one: {}}}, {"map[interface{}]*T", map[interface{}]*c13Node{nil: nil, 1: one}},
	}
	var calls []c13Call
	add := func(entry, desc string, f func() error) { calls = append(calls, c13Call{entry, desc, f}) }
	for _, x := range structish {
		x := x
		add("Struct", x.name, func() error { return valid.Struct(x.v) })
		add("Struct+RM", x.name, func() error { return valid.Struct(x.v, rm) })
		add("Struct+nilRM", x.name, func() error { return valid.Struct(x.v, nil) })
		add("ValidateStruct", x.name, func() error { return valid.ValidateStruct(x.v, "valid") })
		add("ValidateStruct-othertag", x.name, func() error { return valid.ValidateStruct(x.v, "nosuchtag") })
		add("StructForFn", x.name, func() error { return valid.StructForFn(x.v, rm, "valid") })
		add("StructForFn-nilRM", x.name, func() error { return valid.StructForFn(x.v, nil) })
		add("StructForFns", x.name, func() error { return valid.StructForFns(x.v, rm, valid.Name2FnMap{"noop": noop, "required": nil}) })
		add("StructForFns-nil", x.name, func() error { return valid.StructForFns(x.v, nil, nil) })
		add("NestedStructForRule", x.name, func() error {
			return valid.NestedStructForRule(x.v, map[interface{}]valid.RM{&c13Node{}: rm, &c13Odd{}: nil})
		})
		add("NestedStructForRule-nil", x.name, func() error { return valid.NestedStructForRule(x.v, nil) })
		// rule sets filed under objects that are no structs (the slice being validated, a number, a text, a typed nil):
		// such a set matches nothing
		add("NestedStructForRule-odd-objects", x.name, func() error {
			n, list := 7, []c13Node{{}}
			return valid.NestedStructForRule(x.v, map[interface{}]valid.RM{&list: rm, &n: rm, "text": rm, 3.5: rm, (*c13Node)(nil): rm, &c13Node{}: rm, struct{}{}: rm, &struct{}{}: rm, [0]int{}: rm})
		})
		add("SetRule-odd-object", x.name, func() error {
			n := 7
			return valid.NewVStruct().SetRule(rm, &n).SetRule(rm, "text").SetRule(rm, &[]*c13Node{nil}).SetRule(rm, struct{}{}).Valid(x.v)
		})
		add("ValidStructForRule", x.name, func() error { return valid.ValidStructForRule(rm, x.v) })
		add("ValidStructForMyValidFn", x.name, func() error { return valid.ValidStructForMyValidFn(x.v, "noop", noop) })
		add("Var", x.name, func() error { return valid.Var(x.v, "required", "to=1~3") })
		add("Var-norule", x.name, func() error { return valid.Var(x.v) })
		add("VarForFn", x.name, func() error { return valid.VarForFn(x.v, noop) })
		add("VarForFn-nil", x.name, func() error { return valid.VarForFn(x.v, nil) })
		add("Map", x.name, func() error { return valid.Map(x.v, rm) })
		add("Map-nilRM", x.name, func() error { return valid.Map(x.v, nil) })
		add("MapFn", x.name, func() error { return valid.MapFn(x.v, rm, valid.Name2FnMap{"noop": noop}) })
		add("Url", x.name, func() error { return valid.Url(x.v, rm) })
		add("UrlForFn", x.name, func() error { return valid.UrlForFn(x.v, "noop", noop) })
		add("GetDumpStructStr", x.name, func() error { _ = valid.GetDumpStructStr(x.v); return nil })
	}
	// user functions that write whatever they like into the error buffer: nothing, one byte, text
	// without the clause separator, only the separator, several clauses, NUL / invalid UTF-8
	writes := []string{"", "x", ";", " ", "; ", "ab", "no separator at the end", valid.ErrEndFlag, "a" + valid.ErrEndFlag, "a" + valid.ErrEndFlag + "b", "\x00", "\xff", "explain:", "说明:", strings.Repeat("z", 5000)}
	for wi, w := range writes {
		w := w
		fn := func(errBuf *strings.Builder, validName, objName, fieldName string, tv reflect.Value) {
			errBuf.WriteString(w)
		}
		d := fmt.Sprintf("user function writes #%d %q", wi, trunc(w, 30))
		add("VarForFn", d, func() error { return valid.VarForFn("v", fn) })
		add("VarForFn-int", d, func() error { return valid.VarForFn(7, fn) })
		add("NewVVar.SetValidFn", d, func() error { return valid.NewVVar().SetRules("w_fn", "to=1~3").SetValidFn("w_fn", fn).Valid("v") })
		add("MapFn", d, func() error {
			return valid.MapFn(map[string]string{"a": "1"}, valid.RM{"a": "w_fn"}, valid.Name2FnMap{"w_fn": fn})
		})
		add("MapFn+builtin", d, func() error {
			return valid.MapFn(map[string]string{"a": "1", "b": ""}, valid.RM{"a": "w_fn,to=3~4", "b": "required"}, valid.Name2FnMap{"w_fn": fn})
		})
		add("MapFn-slice", d, func() error {
			return valid.MapFn([]map[string]int{{"a": 1}, {"a": 2}}, valid.RM{"a": "w_fn"}, valid.Name2FnMap{"w_fn": fn})
		})
		add("NewVMap.SetValidFn", d, func() error {
			return valid.NewVMap().SetRule(valid.RM{"a": "w_fn"}).SetValidFn("w_fn", fn).Valid(map[string]interface{}{"a": 1})
		})
		add("UrlForFn", d, func() error { return valid.UrlForFn("http://x?a=1", "w_fn", fn) })
		add("NewVUrl.SetValidFn", d, func() error {
			return valid.NewVUrl().SetRule(valid.RM{"a": "w_fn"}).SetValidFn("w_fn", fn).Valid("http://x?a=1&b=2")
		})
		add("StructForFns", d, func() error {
			return valid.StructForFns(&c13Node{A: "x"}, valid.RM{"A": "w_fn"}, valid.Name2FnMap{"w_fn": fn})
		})
		add("ValidStructForMyValidFn", d, func() error { return valid.ValidStructForMyValidFn(&c13Node{A: "x"}, "w_fn", fn) })
		add("StructForFns-slice", d, func() error {
			return valid.StructForFns([]*c13Node{{A: "x"}, {A: "y"}}, valid.RM{"A": "w_fn,to=5~6"}, valid.Name2FnMap{"w_fn": fn})
		})
	}
	// rule maps that name unexported fields (with every rule that looks at the value through Interface())
	hid := &c13Node{A: "x", hidden: 7, secret: []string{"a", "a"}, inner: one, R: one, I: 1}
	hidVal := c13Node{A: "x", hidden: 7, secret: []string{"a", "a"}, R: one, I: 1}
	for _, r := range []string{"in=(1/2)", "eq=3", "noeq=7", "int", "float", "unique", "ints", "botheq=1", "either=1", "required", "exist", "to=1~2", "json", "re='^a$'", "nosuch"} {
		r := r
		rmHid := valid.RM{"hidden": r, "secret": r, "inner": r, "A": "botheq=1"}
		add("Struct+RM-unexported", r, func() error { return valid.Struct(hid, rmHid) })
		add("Struct+RM-unexported-byvalue", r, func() error { return valid.Struct(hidVal, rmHid) })
		add("StructForFns-unexported", r, func() error { return valid.StructForFns(hid, rmHid, valid.Name2FnMap{"nosuch": noop}) })
		add("NestedStructForRule-unexported", r, func() error {
			return valid.NestedStructForRule(&c13Node{A: "x", R: hid, I: 1}, map[interface{}]valid.RM{&c13Node{}: rmHid})
		})
		add("SetRule-unexported-slice", r, func() error { return valid.NewVStruct().SetRule(rmHid, c13Node{}).Valid([]*c13Node{hid, nil}) })
	}
	// map / url specific shapes
	maps := []vals{
		{"map[string]string", map[string]string{"a": "", "b": "x"}}, {"map[string]interface{} nil elem", map[string]interface{}{"a": nil, "b": 1, "A": one}}, {"[]map[string]string{nil}", []map[string]string{nil, {"a": "1"}}},
		{"[]interface{}{map,5}", []interface{}{map[string]string{"a": "1"}, 5}}, {"map[string][]int", map[string][]int{"a": {1}, "b": nil}}, {"map[string]*int", map[string]*int{"a": nil, "b": &five}},
		{"[2]map[string]int", [2]map[string]int{{"a": 1}, nil}}, {"map[string]map[string]int", map[string]map[string]int{"a": {"x": 1}}}, {"map[string]chan", map[string]chan int{"a": ch}},
		{"map[string]T", map[string]c13Node{"a": {}}}, {"**map", func() interface{} { p := &mp; return &p }()},
		{"map[definedString]string", map[c13Key]string{"a": "x", "zz": ""}}, {"map[definedString]int empty", map[c13Key]int{}}, {"[]map[definedString]float64", []map[c13Key]float64{{"a": 1.5}, nil}},
	}
	mapRules := []valid.RM{rm, {"a": "either=1", "b": "either=1"}, {"a": "botheq=1", "b": "botheq=1"}, {"a": "exist"}, {"a": "nosuch"}, {"a": "unique,ints,json,in=(1/2)"}, {"": "required"}}
	for _, x := range maps {
		for i, r := range mapRules {
			x, r := x, r
			add("Map", fmt.Sprintf("%s rules#%d %v", x.name, i, r), func() error { return valid.Map(x.v, r) })
		}
	}
	urls := []interface{}{"", "?", "http://x?", "a=1", "http://x?a=1&&b=2", "http://x?=", "http://x?=&=", "http://x?a", "http://x?a=%", "http://x?a=%zz", "http%3A%2F%2Fx%3Fa%3D%25", "http://x?a=1?b=2", "http://x?a=1#a=2", "http://x?a=1;b=2", "http://x?a==", "http://x?a=1=2", &str, nilStr, "?a=\x00&b=\xff", strings.Repeat("a=1&", 5000),
		// fragments and separators in every relative position (hash routing: '#' before '?')
		"http://x/#/user?a=1", "http://x/faq#why?a=1&b=2", "#?", "#", "?#", "#?a=1", "http://x#", "http://x?#", "http://x?a=1#", "http://x#?", "http%3A%2F%2Fx%2F%23%2Fuser%3Fa%3D1", "%23%3Fa%3D1", "a#b?c=d?e#f",
		"?a=1&", "&", "&&", "=", "?&=", "??", "http://x??a=1", "http://x?a=1&?b=2", "%3F", "%3Fa%3D1", "%", "%3", "?%", "?a=%3", "?%3D=%26", "http://x?a=b=c&=d&e"}
	for _, u := range urls {
		for i, r := range mapRules {
			u, r := u, r
			add("Url", fmt.Sprintf("%#v rules#%d", u, i), func() error { return valid.Url(u, r) })
		}
		u := u
		add("Url-nilRM", fmt.Sprintf("%#v", u), func() error { return valid.Url(u, nil) })
	}
	return calls
}

// rule argument mutations (grammar aware)
func c13RuleMutations() []string {
	args := []string{"", "=", "==", "=1", "=-1", "=abc", "=1~", "=~1", "=~", "=1~2~3", "=1~~2", "=99999999999999999999", "=1~99999999999999999999", "=1.5", "= 1", "=1 ~2", "=0x10",
		"=()", "=(", "=)", "=)a(", "=)(", "=(a", "=a)", "=((a))", "=(a/b", "=a/b)", "=(/)", "=(//)", "=('a)", "=(a')", "=('')",
		"=''", "='", "='a", "=a'", "='''", "='a''b'", "=\\'", "='\\'", "='\\\\'", "='['", "='(?P<x'", "='a{2,1}'", "='\\'|x", "='a'|", "='a'||",
		"='/'", "='/, ,/'", "='/, ,/,x'", "='/, ,/,x,y,z'", "=',,,,,,'", "=,", "=,,,", "='2006'", "='Jan'", "='_2'", "='.000'", "=" + strings.Repeat("-", 70000),
		"|", "||", "|x", "=|", "=|x", "=1|", "=1||", "=\x00", "=\xff\xfe", "|\xff", "=%s%d", "=1~2|" + strings.Repeat("m", 70000)}
	// every short argument again with a dangling escape character / a dangling quote at the very end
	// of the rule text (the scanners look one byte ahead after a backslash)
	for _, a := range append([]string{}, args...) {
		if len(a) < 100 {
			args = append(args, a+"\\", a+"'")
		}
	}
	var out []string
	for _, k := range allRuleKeys {
		for _, a := range args {
			out = append(out, k+a)
		}
	}
	// lists
	out = append(out, ",", ",,,", "required,", ",required", "required,,to=1~2", "'", "''", "'required'", "required|'a,b", "re='a,b',required", "re='a\\',b',required", strings.Repeat("required,", 3000), strings.Repeat("'", 1001))
	return out
}

func c13Values() []reflect.Value {
	five := 5
	s := "v"
	ch := make(chan int, 1)
	vs := []interface{}{"510000000000000", "51000000000000000X", "{\"k\":\x00}", "it's\x1a", "a\\b\x00'", "v", "12", "2021-01-11 23:22:11", "1,2", "{}", "测试", int8(-3), int(7), int64(1) << 40, uint8(9), uint64(1) << 63, float32(1.5), 2.5, true,
		[]int{1, 2}, []string{"a", "a"}, []float64{0.5}, [2]int{1, 1}, []interface{}{1, "a", nil}, map[string]int{"a": 1}, map[int]int{1: 1}, &five, &s, ch, func() {}, 1 + 2i,
		struct{ A int }{1}, &struct{ A int }{1}, []*int{nil, &five}, [][]int{{1}}, []byte("ab"), uintptr(5), unsafe.Pointer(&five), interface{}(nil),
		// arrays handed over by value (not addressable), of every element class
		[3]byte{'a', 'b', 'c'}, [2]uint8{1, 1}, [0]byte{}, [2]bool{true, true}, [1]float32{1.5}, [2]string{"x", "x"}, [2]uintptr{1, 1}, [1][]byte{[]byte("q")}, [2]interface{}{1, 1}, [1]struct{ A int }{{1}},
		// interface-typed elements whose dynamic values cannot be hashed or compared
		[]interface{}{[]int{1}, []int{1}}, []interface{}{map[string]int{"a": 1}, 1, "1"}, []interface{}{func() {}, nil}, [2]struct{ V interface{} }{{[]int{1}}, {[]int{1}}},
		[]interface{}{[]interface{}{1}, []interface{}{1}}, []interface{}{struct{ S []int }{[]int{1}}, struct{ S []int }{[]int{1}}}, []error{nil, fmt.Errorf("e")}, []fmt.Stringer{nil},
		map[string][]interface{}{"k": {[]int{1}, []int{1}}}, []map[string]int{{"a": 1}, {"a": 1}}, []chan int{ch, ch}, []func(){nil, nil}, []*[]int{nil}, [][]interface{}{{[]int{1}}}}
	out := []reflect.Value{}
	for _, v := range vs {
		if v == nil {
			continue
		}
		out = append(out, reflect.ValueOf(v))
	}
	return out
}

func init() {
	core.Register(&core.Prop{
		ID: "C13",
		Rule: "(a) directed catalogue, complete: 41 nil / wrong-kind / nested-nil shapes x 23 entry-point variants, map and URL shapes (incl. '#' and '?' in every relative position) x 7 rule sets, user functions that write arbitrary bytes (nothing, one byte, no separator, only the separator, NUL) through every entry point that takes functions; (b) grammar-aware rule mutation: every rule key x 80 argument mutations (missing, empty, foreign, ~ count 0..3, non-numeric / overflowing bounds, brackets missing / reversed / nested, quotes unbalanced / escaped / empty, 0..6 datetime separators, layout-like separators, invalid regex, 70 KB arguments, NUL and invalid UTF-8) x 57 values of every kind (incl. arrays passed by value, interface elements holding unhashable values) through Var, Struct(RM), Map and Url; " +
			"(c) random bytes as rule text x random run-time synthesised struct values with nil at every level through Struct / StructForFn / NestedStructForRule, plus ValidNamesSplit, ParseValidNameKV, GenValidKV, GetOnlyExplainErr on random bytes; (d) thorough tier only: four native Go fuzz targets (coverage-guided, iteration-bounded) over Var, Struct/NestedStructForRule, Map/Url and the text helpers. Every call is wrapped in recover(); process-fatal errors are attributed through the journal. distinct = distinct (entry, input description); non-trivial = call reached the library with a non-default input",
		Shards: func(t core.Tier) int { return 16 },
		Run:    runC13,
		Parent: parentC13,
		Check: func(r *core.Result, t core.Tier) {
			if t == core.Thorough && r.Counters["fuzz_targets_run"] < 4 {
				r.Inconc(fmt.Sprintf("coverage-guided fuzz targets run: %d of 4", r.Counters["fuzz_targets_run"]))
			}
			if r.Counters["catalogue_calls"] == 0 || r.Counters["catalogue_calls"] != r.Counters["catalogue_size"] {
				r.Inconc(fmt.Sprintf("catalogue incomplete: %d of %d", r.Counters["catalogue_calls"], r.Counters["catalogue_size"]))
			}
			tot := r.Counters["mutation_calls"]
			if tot == 0 || r.Counters["mutation_reached_rule_fn"]*100/tot < 30 {
				r.Inconc(fmt.Sprintf("mutated rules too destructive: %d of %d calls produced a clause", r.Counters["mutation_reached_rule_fn"], tot))
			}
		},
	})
}

func runC13(c *core.Ctx) {
	res := c.Res
	res.Assume("excluded per the property: cyclic object graphs, user callbacks that panic, re-use of a consumed validator object")
	// ---- (a) catalogue
	cat := c13Catalogue()
	for i, call := range cat {
		if c.Shard == 0 {
			res.Count("catalogue_size")
		}
		if !c.Mine(i) {
			continue
		}
		c.Journal("catalogue %d %s %s", i, call.Entry, call.Desc)
		out := drive.Call(call.Fn)
		c13Report(res, call.Entry, call.Desc, out)
		res.Count("catalogue_calls")
		res.DistinctEnum(1)
	}
	// make catalogue_size comparable after merging: every shard adds its share of calls, shard 0 adds the size
	if c.Shard == 0 {
		res.Sample("catalogue", 1, map[string]string{"entry": cat[1].Entry, "input": cat[1*23].Desc})
	}

	// ---- (a2) rules whose answer depends on the world outside the process: file / dir over paths of every kind
	if c.Shard == 0 {
		tree := filepath.Join(c.WorkDir, "c13tree")
		os.MkdirAll(filepath.Join(tree, "sub"), 0o755)
		reg := filepath.Join(tree, "f.txt")
		os.WriteFile(reg, []byte("x"), 0o644)
		os.Symlink(reg, filepath.Join(tree, "ln-file"))
		os.Symlink(filepath.Join(tree, "sub"), filepath.Join(tree, "ln-dir"))
		os.Symlink(filepath.Join(tree, "nowhere"), filepath.Join(tree, "ln-dangling"))
		os.Symlink(filepath.Join(tree, "loop"), filepath.Join(tree, "loop"))
		paths := []string{reg, tree, filepath.Join(tree, "sub"), filepath.Join(tree, "missing"), reg + "/x", filepath.Join(tree, "ln-file"), filepath.Join(tree, "ln-dir"), filepath.Join(tree, "ln-dangling"), filepath.Join(tree, "loop"),
			"/", ".", "..", "/dev/null", "/proc/self/mem", tree + "/", reg + "/", strings.Repeat("a/", 3000), tree + "/" + strings.Repeat("n", 300), "f\x00", "~", "file://" + reg}
		for _, rule := range []string{"file", "dir", "file|not a file", "dir|不是目录", "file,dir", "dir,file|m", "required,dir", "dir,to=1~2"} {
			for _, pth := range paths {
				desc := fmt.Sprintf("rule %q on path %q", rule, trunc(pth, 80))
				c.Journal("world %s", desc)
				for _, cr := range []string{drive.Var, drive.StructRM, drive.MapT, drive.UrlEnc} {
					if out, ok := drive.Carry(cr, reflect.ValueOf(pth), rule); ok {
						c13Report(res, cr, desc, out)
						res.Count("file_dir_calls_on_real_paths")
					}
				}
				res.DistinctEnum(1)
			}
		}
	}

	// ---- (b) grammar-aware rule mutation
	muts := c13RuleMutations()
	vals := c13Values()
	n := 0
	for mi, rule := range muts {
		for vi, v := range vals {
			n++
			if !c.Mine(n) {
				continue
			}
			desc := fmt.Sprintf("rule %s on %s %s", trunc(fmt.Sprintf("%q", rule), 120), v.Type(), trunc(fmt.Sprintf("%v", valStr(v)), 60))
			c.Journal("mutation %d/%d %s", mi, vi, desc)
			for _, cr := range []string{drive.Var, drive.StructRM, drive.MapT, drive.UrlEnc} {
				out, ok := drive.Carry(cr, v, rule)
				if !ok {
					continue
				}
				c13Report(res, cr, desc, out)
				res.Count("mutation_calls")
				if !out.Nil && out.Panic == "" {
					res.Count("mutation_reached_rule_fn")
				}
			}
			res.DistinctEnum(1)
		}
	}
	if c.Shard == 0 {
		res.Sample("mutation", 1, map[string]string{"rule": muts[7*80+22], "value": "int8 -3"})
	}

	// ---- (c) random bytes as rule text x random values
	rng := c.Rng("random")
	N := c.Pick(6000, 300000)
	to := gen.TypeOpts{MaxFields: 5, MaxDepth: 2, Leaf: append(append([]reflect.Type{}, gen.Scalars...), reflect.TypeOf((*interface{})(nil)).Elem(), reflect.TypeOf((*int)(nil)), reflect.TypeOf([]string(nil))),
		Ptr: true, PtrPtr: true, Slices: true, Arrays: true, Maps: true, ContainerOfLeaf: true, EmptyStruct: true, Unexported: true}
	vo := gen.ValueOpts{PZero: 0.3, PEmpty: 0.2, MaxLen: 3, NilElems: true}
	pieces := []string{"required", "exist", "either=1", "botheq=", "to=", "in=(", ")", "(", "'", "|", ",", "=", "~", "/", "1", "a", "datetime=", "re=", "\\", " ", "\x00", "\xff", "测", "ints", "unique", "json", "-"}
	randRule := func() string {
		var sb strings.Builder
		k := rng.Intn(8)
		for i := 0; i < k; i++ {
			if rng.Intn(5) == 0 {
				b := make([]byte, rng.Intn(4))
				rng.Read(b)
				sb.Write(b)
			} else {
				sb.WriteString(pieces[rng.Intn(len(pieces))])
			}
		}
		return sb.String()
	}
	var types []reflect.Type
	for i := 0; i < 60; i++ {
		types = append(types, gen.RandStruct(rng, to))
	}
	for i := 0; i < N; i++ {
		t := types[rng.Intn(len(types))]
		v := gen.Fill(rng, t, vo)
		rm := valid.RM{}
		for f := 0; f < t.NumField(); f++ {
			if rng.Intn(2) == 0 {
				rm[t.Field(f).Name] = randRule()
			}
		}
		var in interface{} = v.Interface()
		switch rng.Intn(4) {
		case 0:
			p := reflect.New(t)
			p.Elem().Set(v)
			in = p.Interface()
		case 1:
			s := reflect.MakeSlice(reflect.SliceOf(reflect.PointerTo(t)), 2, 2)
			p := reflect.New(t)
			p.Elem().Set(v)
			s.Index(0).Set(p)
			in = s.Interface()
		}
		desc := fmt.Sprintf("random case %d (seed %d shard %d): type %s rm %q", i, c.Seed, c.Shard, trunc(t.String(), 200), trunc(fmt.Sprint(rm), 300))
		c.Journal("%s", desc)
		switch i % 4 {
		case 0:
			c13Report(res, "Struct+RM", desc, drive.Call(func() error { return valid.Struct(in, rm) }))
		case 1:
			c13Report(res, "StructForFn", desc, drive.Call(func() error { return valid.StructForFn(in, rm, "valid") }))
		case 2:
			c13Report(res, "NestedStructForRule", desc, drive.Call(func() error {
				return valid.NestedStructForRule(in, map[interface{}]valid.RM{reflect.New(t).Interface(): rm})
			}))
		default:
			c13Report(res, "StructForFns", desc, drive.Call(func() error { return valid.StructForFns(in, rm, nil) }))
		}
		res.Distinct(desc)
		// helper functions on random bytes
		s := randRule()
		if _, pan := safeSplit(s); pan != "" {
			res.Violate("C13|ValidNamesSplit|"+core.NormMsg(pan), fmt.Sprintf("ValidNamesSplit(%q) panicked: %s", s, pan), s)
		}
		if _, _, _, pan := safeParse(s); pan != "" {
			res.Violate("C13|ParseValidNameKV|"+core.NormMsg(pan), fmt.Sprintf("ParseValidNameKV(%q) panicked: %s", s, pan), s)
		}
		if _, pan, _ := drive.CallStr(func() string { return valid.GenValidKV(s, randRule(), randRule()) }); pan != "" {
			res.Violate("C13|GenValidKV|"+core.NormMsg(pan), fmt.Sprintf("GenValidKV(%q,...) panicked: %s", s, pan), s)
		}
		e := strings.ReplaceAll(randRule()+"; "+randRule()+" explain: "+randRule()+"; 说明:"+randRule(), "\xff", "")
		if _, pan, _ := drive.CallStr(func() string { return valid.GetOnlyExplainErr(e) }); pan != "" {
			res.Violate("C13|GetOnlyExplainErr|"+core.NormMsg(pan), fmt.Sprintf("GetOnlyExplainErr(%q) panicked: %s", e, pan), e)
		}
		res.Eval(4)
	}
	_ = rand.Int
}

var (
	reFuzzExecs = regexp.MustCompile(`execs: (\d+)`)
	reFuzzFile  = regexp.MustCompile(`Failing input written to (\S+)`)
)

// parentC13: the sharded deterministic tiers, then (thorough only) the native fuzz targets of
// harness/fuzz as a coverage-guided workload generator.
func parentC13(p *core.ParentCtx) *core.Result {
	res := core.DefaultParent(p)
	if p.Tier == core.Thorough {
		runFuzzTargets(res, "C13", []string{"FuzzVar", "FuzzStruct", "FuzzMapUrl", "FuzzText"})
	}
	return res
}

// runFuzzTargets runs `go test -fuzz` (iteration-bounded) on targets of harness/fuzz. A crasher
// found there is a violation; the failing input is copied into the witness and removed from the
// source tree.
func runFuzzTargets(res *core.Result, prop string, targets []string) {
	dir := os.Getenv("VMON_HARNESS_DIR")
	if dir == "" {
		res.Inconc("VMON_HARNESS_DIR not set: cannot run the fuzz targets")
		return
	}
	iters := os.Getenv("VMON_FUZZ_ITERS")
	if iters == "" {
		iters = "400000"
	}
	for _, target := range targets {
		args := []string{"test"}
		if mf := os.Getenv("VMON_MODFLAG"); mf != "" {
			args = append(args, mf)
		}
		args = append(args, "./fuzz/", "-run", "^$", "-fuzz", "^"+target+"$", "-fuzztime", iters+"x", "-parallel", "8")
		cmd := exec.Command("go", args...)
		cmd.Dir = dir
		out, err := cmd.CombinedOutput()
		txt := string(out)
		n := int64(0)
		for _, m := range reFuzzExecs.FindAllStringSubmatch(txt, -1) {
			if v, e := strconv.ParseInt(m[1], 10, 64); e == nil && v > n {
				n = v
			}
		}
		res.Count("fuzz_execs|"+target, n)
		res.Eval(n)
		if err == nil {
			res.Count("fuzz_targets_run")
			continue
		}
		if strings.Contains(txt, "panic:") || strings.Contains(txt, "--- FAIL") || strings.Contains(txt, "fatal error:") {
			res.Count("fuzz_targets_run")
			input := ""
			if m := reFuzzFile.FindStringSubmatch(txt); m != nil {
				f := filepath.Join(dir, "fuzz", m[1])
				if b, e := os.ReadFile(f); e == nil {
					input = string(b)
				}
				os.Remove(f)
			}
			os.RemoveAll(filepath.Join(dir, "fuzz", "testdata"))
			msg := ""
			for _, l := range strings.Split(txt, "\n") {
				if i := strings.Index(l, "panic: "); i >= 0 {
					msg = strings.TrimSpace(l[i:])
					break
				}
				if i := strings.Index(l, "fatal error: "); i >= 0 {
					msg = strings.TrimSpace(l[i:])
					break
				}
			}
			fn := "?"
			for _, l := range strings.Split(txt, "\n") {
				if i := strings.Index(l, core.LibPkg); i >= 0 {
					t := strings.TrimSpace(l[i:])
					fn = strings.TrimPrefix(t, core.LibPkg)
					if i := strings.Index(fn, "("); i > 0 && !strings.HasPrefix(fn, "valid.(") {
						fn = fn[:i]
					}
					break
				}
			}
			res.Violate(prop+"|fuzz|"+target+"|"+core.NormMsg(msg), fmt.Sprintf("fuzz target %s crashed in %s: %s — failing input: %s", target, fn, msg, trunc(input, 600)),
				map[string]string{"target": target, "failing_input_file": input, "output_tail": trunc(txt[maxInt(0, len(txt)-3000):], 3000)})
			continue
		}
		res.Inconc(fmt.Sprintf("fuzz target %s could not be run: %s", target, trunc(txt, 400)))
	}
}

func maxInt(a, b int) int {
	if a > b {
		return a
	}
	return b
}
