package props

import (
	"fmt"
	"math/rand"
	"reflect"
	"strings"
	"sync"

	"gitee.com/xuesongtao/protoc-go-valid/valid"
	"vmon/internal/core"
	"vmon/internal/drive"
	"vmon/internal/ref"
)

// C16 — programmatic rules and functions override declared ones, with documented scope.

// A family of named struct types that share field names; the outer type also occurs nested.
type C16Outer struct {
	// nested members are declared before, between and after the scalar fields: the rule set that
	// governs this object is the same for every one of its fields, whatever was visited in between
	In    C16Inner             `valid:"exist" alt:"exist"`
	Name  string               `valid:"to=1~3|tag_outer_name" alt:"to=2~5|alt_outer_name"`
	InP   *C16Inner            `valid:"exist" alt:"exist"`
	Age   int                  `valid:"le=5|tag_outer_age" alt:"ge=3|alt_outer_age"`
	Code  string               `valid:"int|tag_outer_code" alt:"to=2~2|alt_outer_code"`
	Ins   []C16Inner           `valid:"exist" alt:"exist"`
	Self  *C16Outer            `valid:"exist" alt:"exist"`
	Other C16Other             `valid:"exist" alt:"exist"`
	Oths  []*C16Other          `valid:"exist" alt:"exist"`
	Bares []C16Bare            `valid:"exist" alt:"exist"`
	BareM map[string]*C16Bare  `valid:"exist" alt:"exist"`
	ReqM  map[string]*C16Inner `valid:"required|tag_outer_reqm" alt:"exist"` // a map member under required: non-empty, its values are visited
}

// C16Bare has no tag rules at all: only a rule set registered for the type can judge it.
type C16Bare struct {
	Name string
	Age  int
	Code string
}

type C16Inner struct {
	Name string    `valid:"to=1~3|tag_inner_name" alt:"required|alt_inner_name"`
	Deep *C16Other `valid:"exist" alt:"exist"`
	Age  int       `valid:"le=5|tag_inner_age" alt:"le=2|alt_inner_age"`
	Code string    `valid:"int|tag_inner_code"`
}

type C16Other struct {
	Name string `valid:"to=1~3|tag_other_name" alt:"phone|alt_other_name"`
	Code string `valid:"either=9"`
	Age  int    `valid:"ge=2|tag_other_age" alt:"lt=4|alt_other_age"`
	Tel  string `valid:"phone|tag_other_phone,to=1~20|tag_other_tel,either=9"`
}

var (
	tC16Outer = reflect.TypeOf(C16Outer{})
	tC16Inner = reflect.TypeOf(C16Inner{})
	tC16Other = reflect.TypeOf(C16Other{})
	tC16Bare  = reflect.TypeOf(C16Bare{})
)

// markerFn is the shape of every user function in this monitor: it reports on every (non-zero)
// value it is called for, with a marker that identifies which registration was resolved.
func markerFn(marker string) valid.CommonValidFn {
	// the message words live in a slice of the function's own and are handed over with the spread
	// operator on every invocation (the helper reads them, it does not keep or change them)
	words := []string{marker}
	return func(errBuf *strings.Builder, validName, objName, fieldName string, tv reflect.Value) {
		errBuf.WriteString(valid.GetJoinValidErrStr(objName, fieldName, valid.ToStr(tv.Interface()), words...))
	}
}

var c16GlobalsOnce sync.Once

// global registrations are irreversible: done once per child process, under names reserved here.
// "email" and "ipv6" replace built-ins globally (global ∩ built-in).
var c16Globals = map[string]string{"g_only": "fn_global_g_only", "g_both": "fn_global_g_both", "email": "fn_global_email", "ipv6": "fn_global_ipv6", "g_all": "fn_global_g_all", "G_Mixed": "fn_global_G_Mixed"}

func c16RegisterGlobals() {
	c16GlobalsOnce.Do(func() {
		for n, m := range c16Globals {
			valid.SetCustomerValidFn(n, markerFn(m))
		}
	})
}

func c16Str(rng *rand.Rand) string {
	return []string{"", "a", "ab", "abcd", "abcdefg", "12", "1x", "13540042617", "a@b.cc"}[rng.Intn(9)]
}

func c16Other(rng *rand.Rand) C16Other {
	return C16Other{Name: c16Str(rng), Code: c16Str(rng), Age: rng.Intn(8), Tel: c16Str(rng)}
}

func c16Inner(rng *rand.Rand) C16Inner {
	in := C16Inner{Name: c16Str(rng), Age: rng.Intn(9), Code: c16Str(rng)}
	if rng.Intn(2) == 0 {
		o := c16Other(rng)
		in.Deep = &o
	}
	return in
}

func c16Outer(rng *rand.Rand, depth int) *C16Outer {
	o := &C16Outer{Name: c16Str(rng), Age: rng.Intn(9), Code: c16Str(rng), In: c16Inner(rng), Other: c16Other(rng)}
	if rng.Intn(2) == 0 {
		in := c16Inner(rng)
		o.InP = &in
	}
	for k := rng.Intn(3); k > 0; k-- {
		o.Ins = append(o.Ins, c16Inner(rng))
	}
	if depth > 0 && rng.Intn(3) != 0 {
		o.Self = c16Outer(rng, depth-1)
	}
	for k := rng.Intn(3); k > 0; k-- {
		x := c16Other(rng)
		o.Oths = append(o.Oths, &x)
	}
	for k := rng.Intn(3); k > 0; k-- {
		o.Bares = append(o.Bares, C16Bare{Name: c16Str(rng), Age: rng.Intn(9), Code: c16Str(rng)})
	}
	if rng.Intn(2) == 0 {
		o.BareM = map[string]*C16Bare{"k": {Name: c16Str(rng), Age: rng.Intn(9)}}
	}
	if rng.Intn(3) != 0 {
		in := c16Inner(rng)
		o.ReqM = map[string]*C16Inner{"m": &in}
		if o.InP != nil && rng.Intn(3) == 0 {
			o.ReqM["m"] = o.InP // one object reached twice (a DAG, not a cycle): it is judged at both places
		}
	}
	if len(o.Oths) > 0 && rng.Intn(4) == 0 {
		o.Oths = append(o.Oths, o.Oths[0]) // the same pointer twice in one slice
	}
	if len(o.Oths) > 0 && rng.Intn(4) == 0 {
		// a nil element is skipped; the elements after it are judged like the ones before it
		k := rng.Intn(len(o.Oths))
		o.Oths = append(o.Oths[:k:k], append([]*C16Other{nil}, o.Oths[k:]...)...)
	}
	if o.ReqM != nil && rng.Intn(4) == 0 {
		o.ReqM["a-nil"] = nil
	}
	return o
}

// c16RuleSet: a rule set for a type; every rule carries a message naming its source so that the
// error shows which source judged the field.
func c16RuleSet(rng *rand.Rand, src string, names []string, fnNames []string) map[string]string {
	rm := map[string]string{}
	for _, f := range []string{"Name", "Age", "Code"} {
		switch rng.Intn(5) {
		case 0: // not mentioned: the tag rule stays
		case 1:
			rm[f] = "" // mentioned with an empty rule: the tag rule stays
		default:
			var items []string
			n := 1 + rng.Intn(3)
			for i := 0; i < n; i++ {
				m := fmt.Sprintf("%s_%s_%d", src, strings.ToLower(f), i)
				switch {
				case rng.Intn(4) == 0 && len(fnNames) > 0:
					fn := fnNames[rng.Intn(len(fnNames))]
					if f == "Age" && (fn == "phone" || fn == "ip") {
						fn = "g_only" // the built-in string rules are not specified for an int field
					}
					items = append(items, fn)
				case f == "Age":
					items = append(items, fmt.Sprintf("%s=%d|%s", []string{"le", "ge", "lt", "gt", "eq"}[rng.Intn(5)], rng.Intn(9), m))
				case rng.Intn(3) == 0:
					items = append(items, []string{"int", "phone", "required", "required"}[rng.Intn(4)]+"|"+m)
				default:
					items = append(items, fmt.Sprintf("to=%d~%d|%s", 1+rng.Intn(3), 1+rng.Intn(7), m))
				}
			}
			rm[f] = strings.Join(items, ",")
		}
	}
	_ = names
	shareTail(rng, rm, src+"_shared")
	return rm
}

func init() {
	core.Register(&core.Prop{
		ID: "C16",
		Rule: "object graphs of three named struct types that share the field names Name / Age / Code (the outermost type re-occurs nested, inner types occur as value, pointer, slice element) with tag rules, plus rule sets supplied per call in the layouts {none, unscoped only, scoped inner, scoped outer, scoped inner+outer, unscoped + scoped inner, unscoped + empty scoped outer, scoped for two inner types}; sets mention a field with a rule, with an empty rule or not at all; " +
			"rule names resolve to per-call functions, globally registered functions (some replacing built-ins) or built-ins in every collision class, and to unknown names; through Struct, StructForFn, StructForFns, NestedStructForRule, ValidateStruct, ValidStructForRule, ValidStructForMyValidFn and the chained NewVStruct().SetRule().SetValidFn().Valid(), one call in three under a second tag name (alt) for which the family carries other rules. Every tag rule, supplied rule and function writes a distinct marker, the (path, marker) sequence must equal the reference's. distinct = distinct (graph, layout, rule sets, function table); non-trivial = a supplied set or a function is present",
		Shards: func(t core.Tier) int { return 16 },
		Run:    runC16,
		Check: func(r *core.Result, t core.Tier) {
			for k, min := range map[string]int64{"unscoped_with_outer_type_nested": 500, "collision|local+global+builtin": 100, "collision|local+builtin": 100, "collision|local+global": 100, "collision|global+builtin": 100, "unknown_name_cases": 200,
				"layout|unscoped": 200, "layout|scoped-inner": 200, "layout|scoped-outer": 200, "layout|scoped-both": 200, "layout|unscoped+scoped-inner": 200, "layout|unscoped+empty-scoped-outer": 200, "layout|scoped-two-inner": 200, "layout|none": 100} {
				if r.Counters[k] < min {
					r.Inconc(fmt.Sprintf("under-observed: %s=%d (minimum %d)", k, r.Counters[k], min))
				}
			}
		},
	})
}

func runC16(c *core.Ctx) {
	res := c.Res
	res.Assume("not covered because the documentation does not order them: a non-empty rule set scoped to the outermost type together with an unscoped set; unscoped sets with top-level slice/map input")
	res.Assume("user functions report on every non-zero value with a marker identifying the registration; global registrations are made once at process start")
	c16RegisterGlobals()
	rng := c.Rng("c16")
	N := c.Pick(1500, 35000)
	for i := 0; i < N; i++ {
		c16Case(res, rng, i)
	}
	for i := 0; i < N/3; i++ {
		c16Flat(res, rng, i)
	}
	for i := 0; i < N/4; i++ {
		c16SameName(res, rng, i)
	}
}

// Two DIFFERENT struct types that are indistinguishable by name: anonymous struct types (empty name)
// and two function-local types both called Item. A rule set registered for one of them must not
// reach the other.
type c16AnonHolder struct {
	A1 struct {
		Name string `valid:"to=1~3|tag_a1_name"`
	} `valid:"exist"`
	A2 struct {
		Name string `valid:"to=1~3|tag_a2_name"`
		X    int
	} `valid:"exist"`
	I1 interface{} `valid:"exist"`
}

func c16LocalItem1() (interface{}, reflect.Type) {
	type Item struct {
		Name string `valid:"to=1~3|tag_item1_name"`
	}
	return &Item{}, reflect.TypeOf(Item{})
}

func c16LocalItem2() (interface{}, reflect.Type) {
	type Item struct {
		Name string `valid:"to=1~3|tag_item2_name"`
		Y    int
	}
	return &Item{}, reflect.TypeOf(Item{})
}

func c16SameName(res *core.Result, rng *rand.Rand, idx int) {
	env := &ref.Env{Tag: "valid", Scoped: map[reflect.Type]map[string]string{}}
	var in interface{}
	var tok interface{}
	which := ""
	rm := map[string]string{"Name": fmt.Sprintf("to=%d~%d|sc_same_%d", 1+rng.Intn(2), 4+rng.Intn(4), idx)}
	if rng.Intn(2) == 0 {
		h := &c16AnonHolder{}
		h.A1.Name, h.A2.Name, h.A2.X = c16Str(rng), c16Str(rng), 1
		if h.A1.Name == "" {
			h.A1.Name = "abcdefghi"
		}
		if h.A2.Name == "" {
			h.A2.Name = "abcdefghi"
		}
		in, which = h, "anonymous"
		if rng.Intn(2) == 0 {
			tok = h.A1
			env.Scoped[reflect.TypeOf(h.A1)] = rm
		} else {
			tok = &h.A2
			env.Scoped[reflect.TypeOf(h.A2)] = rm
		}
	} else {
		// a slice holding values of both local Item types behind pointers is not expressible in one
		// static type; use a holder struct synthesised at run time
		p1, t1 := c16LocalItem1()
		p2, t2 := c16LocalItem2()
		ht := reflect.StructOf([]reflect.StructField{
			{Name: "P1", Type: reflect.PointerTo(t1), Tag: `valid:"exist"`},
			{Name: "P2", Type: reflect.PointerTo(t2), Tag: `valid:"exist"`},
		})
		hv := reflect.New(ht)
		reflect.ValueOf(p1).Elem().Field(0).SetString("abcdefghi"[:1+rng.Intn(9)])
		reflect.ValueOf(p2).Elem().Field(0).SetString("abcdefghi"[:1+rng.Intn(9)])
		reflect.ValueOf(p2).Elem().Field(1).SetInt(1)
		hv.Elem().Field(0).Set(reflect.ValueOf(p1))
		hv.Elem().Field(1).Set(reflect.ValueOf(p2))
		in, which = hv.Interface(), "same-local-name"
		if rng.Intn(2) == 0 {
			tok = p1
			env.Scoped[t1] = rm
		} else {
			tok = p2
			env.Scoped[t2] = rm
		}
	}
	res.Count("same_name_types|" + which)
	exps, entryErr := env.ExpectStruct(in)
	out := drive.Call(func() error { return valid.NewVStruct().SetRule(toRM(rm), tok).Valid(in) })
	wit := vWitness{Entry: "chain/same-name/" + which, Type: fmt.Sprintf("%T", in), Value: describeValue(reflect.ValueOf(in)), Rules: map[string]interface{}{"scoped": rm, "registered_for": fmt.Sprintf("%T", tok)}}
	if judged, _ := compareCall(res, "C16|same-name|"+which, "", out, exps, entryErr, env, true, wit); judged {
		res.Distinct(fmt.Sprint("same", which, wit.Value, rm, wit.Rules))
	}
}

// c16Flat: the same function resolution order through the single-value, map and URL validators.
func c16Flat(res *core.Result, rng *rand.Rand, idx int) {
	env := &ref.Env{Local: map[string]ref.FnModel{}, Global: map[string]ref.FnModel{}}
	for n, m := range c16Globals {
		env.Global[n] = ref.FnModel{Marker: m}
	}
	local := valid.Name2FnMap{}
	for _, name := range []string{"phone", "int", "g_both", "g_all", "email", "l_only", "noDigit", "IsAdmin", "G_Mixed"} {
		if rng.Intn(2) == 0 {
			m := "fn_local_" + name
			local[name] = markerFn(m)
			env.Local[name] = ref.FnModel{Marker: m}
		}
	}
	names := []string{"phone", "int", "g_both", "g_all", "email", "l_only", "g_only", "ipv6", "nosuch_fn", "ip", "to=1~3|m_to", "noDigit", "IsAdmin", "G_Mixed", "NoSuch_Fn"}
	items := []string{}
	for k := 0; k < 1+rng.Intn(4); k++ {
		items = append(items, names[rng.Intn(len(names))])
	}
	rules := strings.Join(items, ",")
	val := c16Str(rng)
	if val == "" {
		val = "zz"
	}
	carrier := []string{"var", "map", "url"}[rng.Intn(3)]
	var out drive.Out
	var exps []ref.Exp
	switch carrier {
	case "var":
		exps = env.ExpectVar(reflect.ValueOf(val), rules)
		out = drive.Call(func() error {
			v := valid.NewVVar().SetRules(rules)
			for n, f := range local {
				v.SetValidFn(n, f)
			}
			return v.Valid(val)
		})
	case "map":
		env.Begin()
		env.ExpectFlat([]ref.FlatEntry{{Key: "k", Val: reflect.ValueOf(val)}}, map[string]string{"k": rules}, func(k string) string { return "map[" + k + "]" }, "", true, nil)
		exps = env.Finish()
		out = drive.Call(func() error { return valid.MapFn(map[string]string{"k": val}, valid.RM{"k": rules}, local) })
	default:
		env.Begin()
		env.ExpectFlat([]ref.FlatEntry{{Key: "k", Val: reflect.ValueOf(val)}}, map[string]string{"k": rules}, func(k string) string { return k }, "", false, nil)
		exps = env.Finish()
		out = drive.Call(func() error {
			v := valid.NewVUrl().SetRule(valid.RM{"k": rules})
			for n, f := range local {
				v.SetValidFn(n, f)
			}
			return v.Valid("http://h.example/p?k=" + val)
		})
	}
	res.Count("route|flat-" + carrier)
	fns := []string{}
	for n := range local {
		fns = append(fns, n)
	}
	sortStrings(fns)
	wit := vWitness{Entry: "flat-" + carrier, Value: val, Rules: map[string]interface{}{"rules": rules, "per_call_functions": fns}}
	if judged, _ := compareCall(res, "C16|flat-"+carrier, "", out, exps, false, env, true, wit); judged {
		res.Distinct(fmt.Sprint("flat", carrier, val, rules, fns))
	}
}

func c16Case(res *core.Result, rng *rand.Rand, idx int) {
	o := c16Outer(rng, 2)
	env := &ref.Env{Tag: "valid", Scoped: map[reflect.Type]map[string]string{}, Local: map[string]ref.FnModel{}, Global: map[string]ref.FnModel{}}
	for n, m := range c16Globals {
		env.Global[n] = ref.FnModel{Marker: m}
	}
	// per-call functions: names colliding with built-ins, globals, both, none
	local := valid.Name2FnMap{}
	fnNames := []string{}
	useFns := rng.Intn(3) != 0
	if useFns {
		for _, cand := range []struct{ name, class string }{
			{"phone", "local+builtin"}, {"int", "local+builtin"}, {"g_both", "local+global"}, {"g_all", "local+global"}, {"email", "local+global+builtin"}, {"l_only", "local"}, {"noDigit", "local"}, {"IsAdmin", "local"}, {"G_Mixed", "local+global"}, {"required", "local+builtin"}, {"exist", "local+builtin"},
		} {
			if rng.Intn(3) == 0 {
				m := "fn_local_" + cand.name
				local[cand.name] = markerFn(m)
				env.Local[cand.name] = ref.FnModel{Marker: m}
				res.Count("collision|" + cand.class)
			}
		}
		fnNames = []string{"phone", "int", "g_both", "g_all", "email", "l_only", "g_only", "ipv6", "nosuch_fn", "ip", "noDigit", "IsAdmin", "G_Mixed", "NoSuch_Fn"} // names are taken as written: letter case included
		res.Count("collision|global+builtin")                                                                                                                       // email / ipv6 are always registered globally over the built-ins
	}
	layouts := []string{"none", "unscoped", "scoped-inner", "scoped-outer", "scoped-both", "unscoped+scoped-inner", "unscoped+empty-scoped-outer", "scoped-two-inner"}
	layout := layouts[rng.Intn(len(layouts))]
	var unscoped, scOuter, scInner, scOther map[string]string
	switch layout {
	case "unscoped":
		unscoped = c16RuleSet(rng, "un", nil, fnNames)
	case "scoped-inner":
		scInner = c16RuleSet(rng, "sci", nil, fnNames)
	case "scoped-outer":
		scOuter = c16RuleSet(rng, "sco", nil, fnNames)
	case "scoped-both":
		scInner, scOuter = c16RuleSet(rng, "sci", nil, fnNames), c16RuleSet(rng, "sco", nil, fnNames)
	case "unscoped+scoped-inner":
		unscoped, scInner = c16RuleSet(rng, "un", nil, fnNames), c16RuleSet(rng, "sci", nil, fnNames)
	case "unscoped+empty-scoped-outer":
		unscoped, scOuter = c16RuleSet(rng, "un", nil, fnNames), map[string]string{}
	case "scoped-two-inner":
		scInner, scOther = c16RuleSet(rng, "sci", nil, fnNames), c16RuleSet(rng, "sct", nil, fnNames)
	}
	// a scoped-outer set in which every entry is empty counts as "non-empty map": the library tests
	// len(map); the documentation does not say which wins together with an unscoped set, and the
	// layouts above never combine them
	res.Count("layout|" + layout)
	if unscoped != nil && o.Self != nil {
		res.Count("unscoped_with_outer_type_nested")
	}
	env.Unscoped = unscoped
	if scOuter != nil {
		env.Scoped[tC16Outer] = scOuter
	}
	if scInner != nil {
		env.Scoped[tC16Inner] = scInner
	}
	if scOther != nil {
		env.Scoped[tC16Other] = scOther
	}
	var scBare map[string]string
	if rng.Intn(2) == 0 {
		scBare = c16RuleSet(rng, "scb", nil, fnNames)
		env.Scoped[tC16Bare] = scBare
		res.Count("scoped_set_for_rule_less_type")
	}
	for _, m := range []map[string]string{unscoped, scOuter, scInner, scOther} {
		for _, r := range m {
			if strings.Contains(r, "nosuch_fn") {
				res.Count("unknown_name_cases")
				break
			}
		}
	}
	// the tag name of the call: the family carries a second rule set under "alt"
	tag := "valid"
	if rng.Intn(3) == 0 {
		tag = "alt"
		env.Tag = "alt"
		res.Count("calls_under_second_tag_name")
	}
	// route
	var in interface{} = o
	top := "ptr"
	if unscoped == nil && rng.Intn(3) == 0 {
		top, in = "slice", []*C16Outer{o, c16Outer(rng, 1)}
		if rng.Intn(3) == 0 {
			top, in = "slice3", []*C16Outer{o, c16Outer(rng, 1), c16Outer(rng, 0)}
		}
	}
	nScoped := 0
	for _, m := range []map[string]string{scOuter, scInner, scOther, scBare} {
		if m != nil {
			nScoped++
		}
	}
	chain := func() *valid.VStruct {
		vs := valid.NewVStruct(tag)
		if tag == "valid" && rng.Intn(2) == 0 {
			vs = valid.NewVStruct()
		}
		if unscoped != nil {
			switch rng.Intn(4) {
			case 0: // the (still empty) map is handed over first and filled afterwards: it is the same map
				rm := valid.RM{}
				vs.SetRule(rm)
				for k, v := range unscoped {
					rm[k] = v
				}
			case 1: // an earlier registration for the same scope is replaced, also by this one
				vs.SetRule(valid.RM{"Name": "eq=77|stale_unscoped", "Age": "eq=77|stale_unscoped"})
				vs.SetRule(toRM(unscoped))
			default:
				vs.SetRule(toRM(unscoped))
			}
		} else if rng.Intn(6) == 0 {
			// a stale registration replaced by an EMPTY one: no override is left
			vs.SetRule(valid.RM{"Name": "eq=77|stale_unscoped"})
			vs.SetRule(valid.RM{})
		}
		// the registrations may come in any order (scoped ones before the unscoped one included):
		// each SetRule adds to what is registered, it replaces only its own scope
		regs := []func(){}
		if scOuter != nil {
			regs = append(regs, func() { vs.SetRule(toRM(scOuter), &C16Outer{}) })
		}
		if scInner != nil {
			k := rng.Intn(3)
			regs = append(regs, func() {
				switch k {
				case 0:
					vs.SetRule(toRM(scInner), C16Inner{}) // value, pointer and typed nil pointer name the same type
				case 1:
					vs.SetRule(toRM(scInner), (*C16Inner)(nil))
				default:
					vs.SetRule(toRM(scInner), &C16Inner{})
				}
			})
		}
		if scOther != nil {
			regs = append(regs, func() { vs.SetRule(toRM(scOther), &C16Other{}) })
		}
		if scBare != nil {
			regs = append(regs, func() { vs.SetRule(toRM(scBare), &C16Bare{}) })
		}
		rng.Shuffle(len(regs), func(a, b int) { regs[a], regs[b] = regs[b], regs[a] })
		for _, r := range regs {
			r()
		}
		if unscoped != nil && len(regs) > 0 && rng.Intn(2) == 0 {
			// ... and the unscoped set once more, AFTER the scoped ones
			vs.SetRule(toRM(unscoped))
			res.Count("unscoped_registered_after_scoped")
		}
		for n, f := range local {
			vs.SetValidFn(n, f)
		}
		return vs
	}
	route := "chain"
	call := func() error { return chain().Valid(in) }
	switch {
	case nScoped == 0 && len(local) == 0 && rng.Intn(2) == 0:
		switch r := rng.Intn(4); {
		case r == 0 && tag == "valid":
			route, call = "Struct", func() error {
				if unscoped == nil {
					return valid.Struct(in)
				}
				return valid.Struct(in, toRM(unscoped))
			}
		case r == 1 || r == 0:
			route, call = "StructForFn", func() error { return valid.StructForFn(in, toRM(unscoped), tag) }
		case r == 2 && unscoped == nil:
			route, call = "ValidateStruct", func() error { return valid.ValidateStruct(in, tag) }
		default:
			route, call = "ValidStructForRule", func() error {
				if tag == "valid" {
					return valid.ValidStructForRule(toRM(unscoped), in)
				}
				return valid.ValidStructForRule(toRM(unscoped), in, tag)
			}
		}
	case nScoped == 0 && len(local) > 0 && rng.Intn(2) == 0:
		route, call = "StructForFns", func() error {
			if tag == "valid" {
				return valid.StructForFns(in, toRM(unscoped), local)
			}
			return valid.StructForFns(in, toRM(unscoped), local, tag)
		}
	case nScoped == 0 && unscoped == nil && len(local) == 1 && rng.Intn(2) == 0:
		for n, f := range local {
			n, f := n, f
			route, call = "ValidStructForMyValidFn", func() error {
				if tag == "valid" {
					return valid.ValidStructForMyValidFn(in, n, f)
				}
				return valid.ValidStructForMyValidFn(in, n, f, tag)
			}
		}
	case nScoped > 0 && unscoped == nil && len(local) == 0 && tag == "valid" && rng.Intn(2) == 0:
		rmap := map[interface{}]valid.RM{}
		if scOuter != nil {
			rmap[&C16Outer{}] = toRM(scOuter)
		}
		if scInner != nil {
			if rng.Intn(3) == 0 {
				rmap[(*C16Inner)(nil)] = toRM(scInner)
			} else {
				rmap[&C16Inner{}] = toRM(scInner)
			}
		}
		if scOther != nil {
			rmap[&C16Other{}] = toRM(scOther)
		}
		if scBare != nil {
			rmap[&C16Bare{}] = toRM(scBare)
		}
		route, call = "NestedStructForRule", func() error { return valid.NestedStructForRule(in, rmap) }
	}
	res.Count("route|" + route)
	res.Count("top|" + top)
	exps, entryErr := env.ExpectStruct(in)
	out := drive.Call(call)
	fns := []string{}
	for n := range local {
		fns = append(fns, n)
	}
	sortStrings(fns)
	wit := vWitness{Entry: route + "/" + layout + "/" + top, Type: "C16Outer family", Value: describeValue(reflect.ValueOf(in)),
		Rules: map[string]interface{}{"unscoped": unscoped, "scoped_outer": scOuter, "scoped_inner": scInner, "scoped_other": scOther, "scoped_bare": scBare, "per_call_functions": fns}}
	if judged, ok := compareCall(res, "C16|"+route, layout, out, exps, entryErr, env, true, wit); judged {
		if layout != "none" || len(local) > 0 {
			res.Distinct(fmt.Sprint(wit.Value, wit.Rules, route, top))
		}
		for _, x := range exps {
			if x.Kind == "input" {
				switch {
				case strings.HasPrefix(x.Msg, "tag_"):
					res.Count("clauses_from|tag")
				case strings.HasPrefix(x.Msg, "un_"):
					res.Count("clauses_from|unscoped")
				case strings.HasPrefix(x.Msg, "sc"):
					res.Count("clauses_from|scoped")
				case strings.HasPrefix(x.Msg, "fn_local"):
					res.Count("clauses_from|per-call-fn")
				case strings.HasPrefix(x.Msg, "fn_global"):
					res.Count("clauses_from|global-fn")
				}
			}
		}
		if ok && idx < 6 && len(exps) > 2 && layout != "none" {
			res.Sample(layout, 1, map[string]interface{}{"route": route, "layout": layout, "rules": wit.Rules, "value": trunc(wit.Value, 300), "library_returned": trunc(out.String(), 700)})
		}
	}
}
