// Package clause parses the library's error text — the observation function of all validation
// monitors — into clauses.
package clause

import (
	"strings"

	"gitee.com/xuesongtao/protoc-go-valid/valid"
)

// The separator and the two explanation labels are exported by the library (ErrEndFlag, ExplainEn,
// ExplainZh); the parser follows them instead of pinning their text.
var (
	Sep     = valid.ErrEndFlag
	LabelEn = valid.ExplainEn
	LabelZh = valid.ExplainZh
)

// Kind of clause.
const (
	Input  = "input"  // ["<path>" ]input "<echo>"[, <label> <text>]
	Group  = "group"  // "<p1>", "<p2>" explain: they ...
	Config = "config" // anything else (unknown rule, rule-writing error, is not struct, ...)
)

type Clause struct {
	Raw   string
	Kind  string
	Path  string   // "" when absent
	Paths []string // group members
	Echo  string
	Label string // "", LabelEn or LabelZh
	Text  string // explanation text after the label (Input, Group) or the whole message (Config)
}

// Split splits an error text into raw clauses.
func Split(err string) []string {
	if err == "" {
		return nil
	}
	return strings.Split(err, Sep)
}

// Parse parses an error text. The generators never put `"; "`, `explain:`, `说明:` or `", `
// sequences that would make this ambiguous into values or messages.
func Parse(err string) []Clause {
	raws := Split(err)
	out := make([]Clause, 0, len(raws))
	for _, r := range raws {
		out = append(out, ParseOne(r))
	}
	return out
}

func ParseOne(r string) Clause {
	c := Clause{Raw: r, Kind: Config, Text: r}
	rest := r
	path := ""
	hasPath := false
	// a path may itself contain quotes (type strings of anonymous struct types): prefer the
	// explicit `" input "` marker to find its end
	if strings.HasPrefix(rest, `"`) && !strings.HasPrefix(rest, `", "`) {
		if k := strings.Index(rest, `" input "`); k > 0 && !strings.Contains(rest[1:k], `", "`) {
			path = rest[1:k]
			hasPath = true
			rest = rest[k+2:]
		}
	}
	if !hasPath && strings.HasPrefix(rest, `"`) {
		if j := strings.Index(rest[1:], `"`); j >= 0 {
			path = rest[1 : 1+j]
			after := rest[1+j+1:]
			// group clause: "p1", "p2"... explain: ...
			if strings.HasPrefix(after, `, "`) {
				paths := []string{path}
				a := after
				for strings.HasPrefix(a, `, "`) {
					k := strings.Index(a[3:], `"`)
					if k < 0 {
						break
					}
					paths = append(paths, a[3:3+k])
					a = a[3+k+1:]
				}
				if strings.HasPrefix(a, " "+LabelEn+" ") {
					return Clause{Raw: r, Kind: Group, Paths: paths, Label: LabelEn, Text: a[len(" "+LabelEn+" "):]}
				}
			}
			if strings.HasPrefix(after, " ") {
				hasPath = true
				rest = after[1:]
			}
		}
	}
	if strings.HasPrefix(rest, `input "`) {
		body := rest[len(`input "`):]
		// the echo ends at the LAST `", explain: ` / `", 说明: ` marker or, failing that, at a final quote
		best, lab := -1, ""
		for _, l := range []string{LabelEn, LabelZh} {
			if i := strings.Index(body, `", `+l+" "); i >= 0 && (best < 0 || i < best) {
				best, lab = i, l
			}
		}
		if best >= 0 {
			c = Clause{Raw: r, Kind: Input, Echo: body[:best], Label: lab, Text: body[best+len(`", `+lab+" "):]}
		} else if strings.HasSuffix(body, `"`) {
			c = Clause{Raw: r, Kind: Input, Echo: body[:len(body)-1]}
		} else if i := strings.Index(body, `", `); i >= 0 {
			// input "<echo>", <text without label>  (e.g. os.Stat error text of file/dir)
			c = Clause{Raw: r, Kind: Input, Echo: body[:i], Text: body[i+3:]}
		} else {
			return c
		}
		if hasPath {
			c.Path = path
		}
		return c
	}
	if hasPath {
		c.Path = path
		c.Text = rest
	}
	return c
}

// LabelFor is the label the library documents for a custom message: Chinese when the message
// contains a rune in U+4E00..U+9FA5, English otherwise.
func LabelFor(msg string) string {
	for _, r := range msg {
		if r >= 0x4e00 && r <= 0x9fa5 {
			return LabelZh
		}
	}
	return LabelEn
}
