// Package gen holds the seeded generators: struct types synthesised at run time, values,
// rule text and Go source files.
package gen

import (
	"fmt"
	"math/rand"
	"reflect"
	"strings"
	"time"
)

// TypeOpts steers RandStruct.
type TypeOpts struct {
	MaxFields       int
	MaxDepth        int
	Leaf            []reflect.Type // allowed leaf types
	Unexported      bool           // may add unexported fields
	EmptyStruct     bool           // may produce structs without fields
	Ptr             bool           // *struct fields
	PtrPtr          bool           // **struct fields
	Slices          bool           // []leaf, []struct, []*struct
	Arrays          bool
	Maps            bool // map[string|int]leaf|struct|*struct
	SliceOfSlice    bool
	Tag             func(rng *rand.Rand, depth int, name string, ft reflect.Type) reflect.StructTag
	ContainerOfLeaf bool // allow containers of leaf types (not only of structs)
	Time            bool // time.Time / *time.Time fields (never validated by the library)
}

var (
	TString  = reflect.TypeOf("")
	TBool    = reflect.TypeOf(true)
	TInt     = reflect.TypeOf(int(0))
	TInt8    = reflect.TypeOf(int8(0))
	TInt16   = reflect.TypeOf(int16(0))
	TInt32   = reflect.TypeOf(int32(0))
	TInt64   = reflect.TypeOf(int64(0))
	TUint    = reflect.TypeOf(uint(0))
	TUint8   = reflect.TypeOf(uint8(0))
	TUint16  = reflect.TypeOf(uint16(0))
	TUint32  = reflect.TypeOf(uint32(0))
	TUint64  = reflect.TypeOf(uint64(0))
	TUintptr = reflect.TypeOf(uintptr(0))
	TFloat32 = reflect.TypeOf(float32(0))
	TFloat64 = reflect.TypeOf(float64(0))
	TTime    = reflect.TypeOf(time.Time{})

	Ints    = []reflect.Type{TInt, TInt8, TInt16, TInt32, TInt64}
	Uints   = []reflect.Type{TUint, TUint8, TUint16, TUint32, TUint64}
	Floats  = []reflect.Type{TFloat32, TFloat64}
	Scalars = append(append(append([]reflect.Type{TString, TBool}, Ints...), Uints...), Floats...)
)

const unexportedPkg = "vmon/internal/gen"

// GKey is a DEFINED string type (kind string, not the type string) used as a map key type.
type GKey string

var TGKey = reflect.TypeOf(GKey(""))

// Defined scalar types: same kind as the built-in type, another type identity.
type (
	GInt  int32
	GStr  string
	GUint uint16
	GBool bool
)

var (
	TGInt  = reflect.TypeOf(GInt(0))
	TGStr  = reflect.TypeOf(GStr(""))
	TGUint = reflect.TypeOf(GUint(0))
	TGBool = reflect.TypeOf(GBool(false))
)

// RandStruct builds a random struct type.
func RandStruct(rng *rand.Rand, o TypeOpts) reflect.Type {
	return randStruct(rng, o, 0)
}

func randStruct(rng *rand.Rand, o TypeOpts, depth int) reflect.Type {
	n := rng.Intn(o.MaxFields + 1)
	if n == 0 && !o.EmptyStruct {
		n = 1
	}
	if o.EmptyStruct && depth > 0 && rng.Intn(12) == 0 {
		n = 0
	}
	fields := make([]reflect.StructField, 0, n)
	allUnexp := o.Unexported && rng.Intn(15) == 0
	for i := 0; i < n; i++ {
		ft := randFieldType(rng, o, depth)
		// first letters from both ends of the alphabet (an exported name is one that starts with A..Z)
		f := reflect.StructField{Name: fmt.Sprintf("%c%d", "FFFAZYB"[rng.Intn(7)], i), Type: ft}
		if o.Unexported && (allUnexp || rng.Intn(7) == 0 || (i == 0 && rng.Intn(4) == 0)) {
			f.Name = fmt.Sprintf("u%d", i)
			f.PkgPath = unexportedPkg
		}
		if o.Tag != nil {
			f.Tag = o.Tag(rng, depth, f.Name, ft)
		}
		fields = append(fields, f)
	}
	return reflect.StructOf(fields)
}

func randFieldType(rng *rand.Rand, o TypeOpts, depth int) reflect.Type {
	leaf := func() reflect.Type {
		if o.Time && rng.Intn(9) == 0 {
			if rng.Intn(3) == 0 {
				return reflect.PointerTo(TTime)
			}
			return TTime
		}
		return o.Leaf[rng.Intn(len(o.Leaf))]
	}
	if depth >= o.MaxDepth {
		if o.ContainerOfLeaf && o.Slices && rng.Intn(5) == 0 {
			return reflect.SliceOf(leaf())
		}
		return leaf()
	}
	var elem func() reflect.Type
	elem = func() reflect.Type {
		// element of a container: struct, *struct, or leaf
		switch r := rng.Intn(6); {
		case r < 3:
			return randStruct(rng, o, depth+1)
		case r < 5 && o.Ptr:
			return reflect.PointerTo(randStruct(rng, o, depth+1))
		}
		if o.ContainerOfLeaf {
			return leaf()
		}
		return randStruct(rng, o, depth+1)
	}
	for {
		switch rng.Intn(12) {
		case 0, 1, 2, 3, 4:
			return leaf()
		case 5:
			return randStruct(rng, o, depth+1)
		case 6:
			if o.Ptr {
				return reflect.PointerTo(randStruct(rng, o, depth+1))
			}
		case 7:
			if o.Slices {
				return reflect.SliceOf(elem())
			}
		case 8:
			if o.Arrays {
				return reflect.ArrayOf(rng.Intn(3), elem())
			}
		case 9:
			if o.Maps {
				kt := TString
				if rng.Intn(3) == 0 {
					kt = []reflect.Type{TInt, TInt32, TUint8, TInt64, TGKey, TUint64}[rng.Intn(6)]
				}
				if o.SliceOfSlice && rng.Intn(4) == 0 {
					// the member of a map is itself a collection: map[K][]leaf, map[K][n]leaf, map[K]map[string]leaf
					switch rng.Intn(3) {
					case 0:
						return reflect.MapOf(kt, reflect.SliceOf(leaf()))
					case 1:
						return reflect.MapOf(kt, reflect.ArrayOf(1+rng.Intn(2), leaf()))
					}
					return reflect.MapOf(kt, reflect.MapOf(TString, leaf()))
				}
				return reflect.MapOf(kt, elem())
			}
		case 10:
			if o.PtrPtr {
				return reflect.PointerTo(reflect.PointerTo(randStruct(rng, o, depth+1)))
			}
		case 11:
			if o.SliceOfSlice && o.Slices {
				return reflect.SliceOf(reflect.SliceOf(leaf()))
			}
		}
	}
}

// ValueOpts steers Fill.
type ValueOpts struct {
	PZero          float64                                                                           // probability of leaving a node zero / nil
	PEmpty         float64                                                                           // probability of an empty non-nil collection
	MaxLen         int                                                                               // max collection length
	Str            func(rng *rand.Rand) string                                                       // string generator
	Float          func(rng *rand.Rand, bits int) float64                                            // float generator
	Leaf           func(rng *rand.Rand, t reflect.Type, tag reflect.StructTag) (reflect.Value, bool) // optional override per leaf
	NilElems       bool                                                                              // allow nil pointers inside slices / maps
	MaxStructDepth int                                                                               // structs nested deeper than this stay zero (0 = no limit)
	depth          int
}

// Fill returns a random value of type t.
func Fill(rng *rand.Rand, t reflect.Type, o ValueOpts) reflect.Value {
	v := reflect.New(t).Elem()
	fill(rng, v, o, "", true)
	return v
}

func fill(rng *rand.Rand, v reflect.Value, o ValueOpts, tag reflect.StructTag, top bool) {
	if !top && rng.Float64() < o.PZero {
		return
	}
	t := v.Type()
	if o.Leaf != nil && t.Kind() != reflect.Struct {
		if lv, ok := o.Leaf(rng, t, tag); ok {
			v.Set(lv)
			return
		}
	}
	switch t.Kind() {
	case reflect.Struct:
		if o.MaxStructDepth > 0 && o.depth >= o.MaxStructDepth {
			return
		}
		o.depth++ // o is passed by value: the counter follows the nesting
		for i := 0; i < t.NumField(); i++ {
			f := t.Field(i)
			if f.PkgPath != "" {
				continue // unexported: not settable, stays zero
			}
			fill(rng, v.Field(i), o, f.Tag, false)
		}
	case reflect.Ptr:
		p := reflect.New(t.Elem())
		fill(rng, p.Elem(), o, tag, true)
		v.Set(p)
	case reflect.Slice:
		if rng.Float64() < o.PEmpty {
			v.Set(reflect.MakeSlice(t, 0, 2)) // empty, with spare capacity: the measure is the length
			return
		}
		n := 1 + rng.Intn(o.MaxLen)
		s := reflect.MakeSlice(t, n, n+(n*7+3)%4) // spare capacity of 0..3 (no extra random draw)
		for i := 0; i < n; i++ {
			fillElem(rng, s.Index(i), o, tag)
		}
		v.Set(s)
	case reflect.Array:
		for i := 0; i < t.Len(); i++ {
			fillElem(rng, v.Index(i), o, tag)
		}
	case reflect.Map:
		m := reflect.MakeMap(t)
		if rng.Float64() >= o.PEmpty {
			n := 1 + rng.Intn(o.MaxLen)
			for i := 0; i < n; i++ {
				k := reflect.New(t.Key()).Elem()
				switch t.Key().Kind() {
				case reflect.String:
					k.SetString(fmt.Sprintf("k%d", rng.Intn(50)))
				case reflect.Int, reflect.Int8, reflect.Int16, reflect.Int32, reflect.Int64:
					k.SetInt(int64(rng.Intn(100)) - 20)
				default:
					k.SetUint(uint64(rng.Intn(100)))
					if t.Key().Bits() == 64 && rng.Intn(3) == 0 {
						k.SetUint(1<<63 + uint64(rng.Intn(100))) // beyond the signed range
					}
				}
				e := reflect.New(t.Elem()).Elem()
				fillElem(rng, e, o, tag)
				m.SetMapIndex(k, e)
			}
		}
		v.Set(m)
	default:
		fillLeaf(rng, v, o)
	}
}

func fillElem(rng *rand.Rand, e reflect.Value, o ValueOpts, tag reflect.StructTag) {
	if e.Kind() == reflect.Ptr && o.NilElems && rng.Intn(5) == 0 {
		return
	}
	if e.Kind() == reflect.Struct || e.Kind() == reflect.Ptr {
		if rng.Float64() < o.PZero {
			if e.Kind() == reflect.Ptr && !o.NilElems {
				e.Set(reflect.New(e.Type().Elem()))
			}
			return
		}
	}
	fill(rng, e, o, tag, true)
}

func fillLeaf(rng *rand.Rand, v reflect.Value, o ValueOpts) {
	switch v.Kind() {
	case reflect.String:
		if o.Str != nil {
			v.SetString(o.Str(rng))
		} else {
			v.SetString(DefaultStr(rng))
		}
	case reflect.Bool:
		v.SetBool(rng.Intn(2) == 0)
	case reflect.Int, reflect.Int8, reflect.Int16, reflect.Int32, reflect.Int64:
		bits := v.Type().Bits()
		x := rng.Int63() >> uint(64-bits)
		if rng.Intn(2) == 0 {
			x = -x
		}
		if rng.Intn(3) == 0 {
			x = int64(rng.Intn(20)) - 5
		}
		if rng.Intn(16) == 0 {
			// the extremes of the type (the most negative value has no positive counterpart)
			x = int64(-1) << uint(bits-1)
			if rng.Intn(2) == 0 {
				x = -(x + 1)
			}
		}
		v.SetInt(x)
	case reflect.Uint, reflect.Uint8, reflect.Uint16, reflect.Uint32, reflect.Uint64, reflect.Uintptr:
		bits := v.Type().Bits()
		x := rng.Uint64() >> uint(64-bits)
		if rng.Intn(3) == 0 {
			x = uint64(rng.Intn(20))
		}
		if rng.Intn(16) == 0 {
			x = ^uint64(0) >> uint(64-bits)
		}
		v.SetUint(x)
	case reflect.Float32, reflect.Float64:
		if o.Float != nil {
			v.SetFloat(o.Float(rng, v.Type().Bits()))
		} else {
			v.SetFloat(float64(rng.Intn(2000)-1000) / 8)
		}
	}
}

var strPools = []string{"abcxyzABC019", "测试调四川成都", " -_.:,()[]{}", "éü€"}

// DefaultStr: short strings over letters, digits, CJK and punctuation without characters that
// need escaping in JSON.
func DefaultStr(rng *rand.Rand) string {
	n := rng.Intn(7)
	var sb strings.Builder
	for i := 0; i < n; i++ {
		p := []rune(strPools[rng.Intn(len(strPools))])
		sb.WriteRune(p[rng.Intn(len(p))])
	}
	return sb.String()
}
