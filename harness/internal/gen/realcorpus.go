package gen

import (
	"go/ast"
	"go/parser"
	"go/token"
	"io/fs"
	"math/rand"
	"os"
	"os/exec"
	"path/filepath"
	"regexp"
	"sort"
	"strings"
	"sync"
)

// Real-world Go sources as injector input: the protoc-gen-go output (*.pb.go) that ships with the
// modules in the module cache — exactly what the tool is made for — and the standard library's
// sources (every syntactic form the parser accepts, plus testdata that does not parse).
//
// The files are only read; copies go into the run's work directory.

var (
	realOnce  sync.Once
	realPB    []string // *.pb.go in the module cache
	realStd   []string // *.go under GOROOT/src
	realMaxSz = int64(300 << 10)
)

func goEnv(name string) string {
	out, err := exec.Command("go", "env", name).Output()
	if err != nil {
		return ""
	}
	return strings.TrimSpace(string(out))
}

func walkGo(root string, keep func(path string) bool) []string {
	var out []string
	if root == "" {
		return nil
	}
	if r, err := filepath.EvalSymlinks(root); err == nil {
		root = r
	}
	filepath.WalkDir(root, func(p string, d fs.DirEntry, err error) error {
		if err != nil {
			return nil
		}
		if d.IsDir() {
			return nil
		}
		if !strings.HasSuffix(p, ".go") || !keep(p) {
			return nil
		}
		if fi, err := d.Info(); err != nil || fi.Size() > realMaxSz || fi.Size() == 0 {
			return nil
		}
		out = append(out, p)
		return nil
	})
	sort.Strings(out)
	return out
}

// RealCorpus returns the two sorted file lists (possibly empty when the toolchain's directories
// cannot be found).
func RealCorpus() (pb, std []string) {
	realOnce.Do(func() {
		realPB = walkGo(goEnv("GOMODCACHE"), func(p string) bool { return strings.HasSuffix(p, ".pb.go") })
		realStd = walkGo(filepath.Join(goEnv("GOROOT"), "src"), func(p string) bool { return true })
	})
	return realPB, realStd
}

var reConventionalLit = regexp.MustCompile("^`[A-Za-z_][A-Za-z0-9_]*:\"[^\"`\\\\]+\"( [A-Za-z_][A-Za-z0-9_]*:\"[^\"`\\\\]+\")*`$")

// AnnotateReal appends `// @tag ...` comments to fields of top-level, ungrouped struct declarations
// of a real source file: only fields that have a conventional backquoted tag literal, no trailing
// comment, and nothing but the line end after the field. It returns the annotated source and the
// number of annotated fields (0: the file has no such field, or does not parse).
func AnnotateReal(rng *rand.Rand, src []byte) ([]byte, int) {
	if strings.Contains(string(src), "@tag") {
		return src, 0
	}
	fset := token.NewFileSet()
	f, err := parser.ParseFile(fset, "x.go", src, parser.ParseComments)
	if err != nil {
		return src, 0
	}
	type cand struct {
		end      int
		existing []string
	}
	var cands []cand
	for _, d := range f.Decls {
		gd, ok := d.(*ast.GenDecl)
		if !ok || gd.Tok != token.TYPE || gd.Lparen.IsValid() {
			continue
		}
		for _, spec := range gd.Specs {
			ts := spec.(*ast.TypeSpec)
			st, ok := ts.Type.(*ast.StructType)
			if !ok || st.Fields == nil {
				continue
			}
			for _, fl := range st.Fields.List {
				if fl.Tag == nil || fl.Comment != nil || !reConventionalLit.MatchString(fl.Tag.Value) {
					continue
				}
				end := fset.Position(fl.End()).Offset
				if end != fset.Position(fl.Tag.End()).Offset {
					continue
				}
				// only blanks up to the end of the line
				k := end
				for k < len(src) && (src[k] == ' ' || src[k] == '\t' || src[k] == '\r') {
					k++
				}
				if k < len(src) && src[k] != '\n' {
					continue
				}
				var keys []string
				for _, it := range strings.Split(strings.Trim(fl.Tag.Value, "`"), "\" ") {
					if c := strings.IndexByte(it, ':'); c > 0 {
						keys = append(keys, it[:c])
					}
				}
				cands = append(cands, cand{end, keys})
			}
		}
	}
	if len(cands) == 0 {
		return src, 0
	}
	out := append([]byte{}, src...)
	n := 0
	pAll := rng.Intn(3) == 0
	forced := rng.Intn(len(cands))
	for i := len(cands) - 1; i >= 0; i-- {
		if !pAll && i != forced && rng.Intn(3) != 0 {
			continue
		}
		c := cands[i]
		have := map[string]bool{}
		for _, k := range c.existing {
			have[k] = true
		}
		var inject []KV
		switch rng.Intn(3) {
		case 0: // add
			for _, k := range pickKeys(rng, 1+rng.Intn(2), have) {
				inject = append(inject, KV{k, pickVal(rng, "RW")})
			}
		case 1: // override an existing key
			inject = append(inject, KV{c.existing[rng.Intn(len(c.existing))], pickVal(rng, "RW")})
		default: // both
			for _, k := range pickKeys(rng, 1, have) {
				inject = append(inject, KV{k, pickVal(rng, "RW")})
			}
			inject = append(inject, KV{c.existing[rng.Intn(len(c.existing))], pickVal(rng, "RW")})
		}
		if len(inject) == 0 {
			inject = []KV{{"valid", "required"}}
		}
		lead := " // "
		if rng.Intn(4) == 0 {
			lead = " // " + zhComments[rng.Intn(len(zhComments))] + " "
		}
		ins := lead + "@tag " + kvString(inject, " ")
		out = append(out[:c.end], append([]byte(ins), out[c.end:]...)...)
		n++
	}
	return out, n
}

// ReadReal reads one corpus file ("" on error).
func ReadReal(p string) []byte {
	b, err := os.ReadFile(p)
	if err != nil {
		return nil
	}
	return b
}
