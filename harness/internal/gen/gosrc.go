package gen

import (
	"fmt"
	"math/rand"
	"strings"
)

// SrcOpts selects the shape class of a generated Go source file.
//
//	G1 protoc-gen-go shape          G2 many structs, other declarations interleaved (offset shifts)
//	G3 key overlap variety          G4 non-ASCII before/inside comments and values
//	G5 values with $ \ % regex      G6 valid-Go variety (multi-name, embedded, multi-line anonymous struct, /* */, generics, spacing)
//	G7 one-line anonymous struct field type that itself contains a tag literal
//	G0 no annotations at all
type SrcOpts struct {
	Class string
}

var SrcClasses = []string{"G1", "G2", "G3", "G4", "G5", "G6", "G7"}

type KV struct{ K, V string }

func kvString(kvs []KV, sep string) string {
	parts := make([]string, len(kvs))
	for i, kv := range kvs {
		parts[i] = kv.K + `:"` + kv.V + `"`
	}
	return strings.Join(parts, sep)
}

var tagKeys = []string{"json", "protobuf", "valid", "alipay", "wechat", "gorm", "form", "xml", "bson", "db_2"}

var plainVals = []string{"name,omitempty", "required", "required,to=1~3", "to=1~150", "bytes,1,opt,name=name,proto3", "varint,2,opt,name=age,proto3", "-", "id", "phone", "ge=0", "in=(1/2/3)", "either=1", "required|need it,le=3",
	// white space inside a value is part of the value: two blanks, a tab, a no-break space, an ideographic space
	"required|age  1 to 150", "required|a\tb", "required|no\u00a0break", "required|姓名\u3000必填", " lead", "trail ", "required,email|like name@example.com", "root@localhost", "@"}
var zhVals = []string{"required|姓名必填,to=1~3", "to=1~150|年龄1~150", "phone|'手机号码必填,同时正确'", "required|必填", "in=(男/女)|性别"}
var dollarVals = []string{"re='^a$1b$$c'", "re='^[a-z]+$'", "re='^\\\\d{2}$'|two digits", "${x}", "$1", "a$$b", "$name", "100%", "rate in % of total", "%s and %d%%", "%v", "re='^(a|b)$0'", "c:\\\\dir", "a$b$c", "re='^\\\\w+$',required"}

func pickVal(rng *rand.Rand, class string) string {
	switch {
	case class == "G5" && rng.Intn(2) == 0:
		return dollarVals[rng.Intn(len(dollarVals))]
	case class == "G4" && rng.Intn(2) == 0:
		return zhVals[rng.Intn(len(zhVals))]
	case rng.Intn(8) == 0:
		return zhVals[rng.Intn(len(zhVals))]
	}
	return plainVals[rng.Intn(len(plainVals))]
}

func pickKeys(rng *rand.Rand, n int, avoid map[string]bool) []string {
	out := []string{}
	perm := rng.Perm(len(tagKeys))
	for _, i := range perm {
		if len(out) == n {
			break
		}
		if avoid != nil && avoid[tagKeys[i]] {
			continue
		}
		out = append(out, tagKeys[i])
	}
	return out
}

var goTypes = []string{"string", "int32", "int64", "[]string", "*Inner", "map[string]int32", "[]*Inner", "float64", "bool", "[]byte", "Inner", "interface{}", "func(int) string", "chan int", "[4]uint8"}

var zhComments = []string{"姓名", "年龄", "手机", "临时", "下单 请求", "商品名 (必填)", "état", "коммент"}

// GenGoFile produces a syntactically valid Go source file of the requested class.
// annotated is the number of fields that carry a tag literal and a well-formed @tag comment.
func GenGoFile(rng *rand.Rand, o SrcOpts) (src string, annotated int) {
	var sb strings.Builder
	class := o.Class
	pkg := []string{"pb", "test", "model"}[rng.Intn(3)]
	if class == "G4" || rng.Intn(4) == 0 {
		sb.WriteString("// 文件头注释: generated — DO NOT EDIT. @tag in a header comment is not an annotation\n")
	}
	fmt.Fprintf(&sb, "package %s\n\n", pkg)
	if rng.Intn(2) == 0 {
		sb.WriteString("import (\n\t\"fmt\"\n)\n\nvar _ = fmt.Sprint\n\n")
	}
	sb.WriteString("type Inner struct {\n\tID int64 `json:\"id\"`\n}\n\n")
	nStructs := 1 + rng.Intn(3)
	if class == "G2" {
		nStructs = 3 + rng.Intn(5)
	}
	for s := 0; s < nStructs; s++ {
		if class == "G2" || rng.Intn(3) == 0 {
			sb.WriteString(otherDecl(rng, s))
		}
		name := fmt.Sprintf("Msg%d", s)
		if rng.Intn(3) == 0 {
			fmt.Fprintf(&sb, "// %s %s\n", name, zhComments[rng.Intn(len(zhComments))])
		}
		generic := class == "G6" && rng.Intn(4) == 0
		if generic {
			fmt.Fprintf(&sb, "type %s[T any] struct {\n", name)
		} else {
			fmt.Fprintf(&sb, "type %s struct {\n", name)
		}
		if class == "G1" || rng.Intn(4) == 0 {
			sb.WriteString("\tstate         int\n\tsizeCache     int32\n\tunknownFields []byte\n\n")
		}
		nFields := 1 + rng.Intn(6)
		for f := 0; f < nFields; f++ {
			annotated += genField(rng, &sb, class, s, f, generic)
		}
		sb.WriteString("}\n\n")
		if rng.Intn(3) == 0 {
			fmt.Fprintf(&sb, "func (x *%s) Reset() { *x = %s{} }\n\n", strings.TrimSuffix(name+map[bool]string{true: "[T]", false: ""}[generic], ""), name+map[bool]string{true: "[T]", false: ""}[generic])
		}
	}
	if class == "G2" || rng.Intn(3) == 0 {
		sb.WriteString(otherDecl(rng, 99))
	}
	if class != "G0" && rng.Intn(4) == 0 {
		// neighbouring fields (in one struct, in two structs) with byte-identical literal and annotation,
		// as in two messages that both declare `int64 id = 1; // @tag valid:"required"`
		line := "\tId int64 `protobuf:\"varint,1,opt,name=id,proto3\" json:\"id,omitempty\"` // @tag valid:\"required\"\n"
		sb.WriteString("type DupFirst struct {\n" + line + "}\n\ntype DupSecond struct {\n" + line + strings.Replace(line, "\tId ", "\tId2 ", 1) + "}\n\n")
		annotated += 3
	}
	// the last bytes of the file: generated and formatted files end in one newline, hand-edited ones in anything
	out := sb.String()
	switch rng.Intn(12) {
	case 0, 1:
		out = strings.TrimRight(out, "\n") // no final newline
	case 2:
		out = strings.TrimRight(out, "\n") + "\n"
	case 3:
		out = strings.TrimRight(out, "\n") + "\n\t \n   "
	case 4:
		out = strings.TrimRight(out, "\n") + "\n// EOF 结束" // a comment as the last line, no newline after it
	case 5:
		out = strings.TrimRight(out, "\n") + "\n\n\n\n"
	}
	return out, annotated
}

func otherDecl(rng *rand.Rand, n int) string {
	if rng.Intn(9) == 0 {
		// a line directive (goyacc, cgo, stringer and protoc plugins emit them): it renames the positions that
		// follow, the bytes stay where they are and belong to THIS file
		return fmt.Sprintf([]string{"//line grammar.y:%d\n\n", "//line other_gen.go:%d\n\n", "/*line tmpl.tpl:%d:1*/\n\n", "//line :%d\n\n"}[rng.Intn(4)], 1+n*7)
	}
	switch rng.Intn(6) {
	case 0:
		return fmt.Sprintf("const c%d = \"// @tag valid:\\\"required\\\" inside a string\"\n\n", n)
	case 1:
		return fmt.Sprintf("var raw%d = `type X struct {\n\tA int `+\"`json:\\\"a\\\"`\"+` // @tag valid:\"required\"\n}`\n\n", n)
	case 2:
		return fmt.Sprintf("func f%d() {\n\ttype local struct {\n\t\tA int `json:\"a\"` // @tag valid:\"required\"\n\t}\n\t_ = local{}\n}\n\n", n)
	case 3:
		return fmt.Sprintf("type I%d interface {\n\tM() string // @tag valid:\"required\"\n}\n\n", n)
	case 4:
		return fmt.Sprintf("type (\n\tGa%d struct {\n\t\tA int `json:\"a\"`\n\t}\n\tGb%d int\n)\n\n", n, n)
	}
	return fmt.Sprintf("type Alias%d = Inner\n\n// 注释 %d: mentions @tag but belongs to no field\n\n", n, n)
}

func genField(rng *rand.Rand, sb *strings.Builder, class string, s, f int, generic bool) int {
	name := fmt.Sprintf("F%d_%d", s, f)
	typ := goTypes[rng.Intn(len(goTypes))]
	if generic && rng.Intn(3) == 0 {
		typ = "T"
	}
	nExisting := rng.Intn(4) // 0 => no literal for unannotated fields only
	annotate := rng.Intn(10) < 6
	if class == "G0" {
		annotate = false
	}
	if annotate && nExisting == 0 {
		nExisting = 1
	}
	existingKeys := pickKeys(rng, nExisting, nil)
	existing := make([]KV, len(existingKeys))
	have := map[string]bool{}
	for i, k := range existingKeys {
		existing[i] = KV{k, pickVal(rng, class)} // hostile characters also in values the comment does not mention
		have[k] = true
	}
	// spacing between existing keys
	sep := " "
	if class == "G6" && rng.Intn(3) == 0 {
		sep = []string{"  ", "\t", " \t "}[rng.Intn(3)]
	}
	decl := ""
	switch {
	case class == "G6" && rng.Intn(6) == 0:
		decl = fmt.Sprintf("%s, %sb %s", name, name, "int")
	case class == "G6" && rng.Intn(6) == 0:
		decl = "Inner" // embedded (at most once per struct is needed for validity)
		if f != 0 {
			decl = fmt.Sprintf("%s %s", name, typ)
		}
	case class == "G6" && rng.Intn(5) == 0:
		decl = fmt.Sprintf("%s struct {\n\t\tA int `json:\"a\"`\n\t\tB string\n\t}", name)
		if rng.Intn(2) == 0 {
			// inner fields of an anonymous struct type that carry @tag comments of their own: the tool
			// works on the fields of top-level struct types only, these stay as they are
			decl = fmt.Sprintf("%s struct {\n\t\tA int `json:\"a\"` // @tag valid:\"ge=1\" form:\"a\"\n\t\tB string `json:\"b\"` // 内层 @tag valid:\"required\"\n\t}", name)
		}
	case class == "G7" && rng.Intn(2) == 0:
		decl = fmt.Sprintf("%s struct{ Y int `json:\"y\"` }", name)
		if rng.Intn(2) == 0 && annotate {
			// the outer literal is byte-identical to the inner one: a rewrite that looks for the
			// literal's text instead of its position hits the wrong one
			existing = []KV{{"json", "y"}}
			have = map[string]bool{"json": true}
		}
	default:
		pad := strings.Repeat(" ", rng.Intn(4))
		decl = fmt.Sprintf("%s%s %s", name, pad, typ)
	}
	writeHead := func(extraItem string) {
		sb.WriteString("\t" + decl)
		if len(existing) > 0 {
			lit := kvString(existing, sep)
			if extraItem != "" {
				lit += sep + extraItem
			}
			sb.WriteString(" `" + lit + "`")
		}
	}
	if !annotate {
		if class == "G6" && rng.Intn(6) == 0 {
			// a leading (doc) comment that mentions @tag belongs to no trailing annotation: untouched
			sb.WriteString("\t// @tag valid:\"required\" doc:\"x\"\n")
		}
		writeHead("")
		switch rng.Intn(5) {
		case 0:
			sb.WriteString(" // " + zhComments[rng.Intn(len(zhComments))])
		case 1:
			sb.WriteString(" // see the tag docs")
		case 2:
			if len(existing) == 0 && class != "G0" {
				// an annotation on a field that has NO tag literal (hand-written structs next to generated ones): there is
				// no literal to merge into, the field stays as it is — with the pairs alone, with a remark after them,
				// in a block comment
				kv := []string{`valid:"required"`, `valid:"to=1~50" form:"size"`, `json:"n,omitempty"`}[rng.Intn(3)]
				sb.WriteString([]string{" // @tag " + kv, " // 每页 @tag " + kv + " 每页条数", " /* @tag " + kv + " */", " // @tag " + kv + " // and `more`", " /* 备注 */ // @tag " + kv}[rng.Intn(5)])
			}
		}
		sb.WriteString("\n")
		return 0
	}
	// the @tag comment
	var inject []KV
	mode := rng.Intn(4)
	if class == "G3" {
		mode = rng.Intn(4)
	}
	if class == "G3" && len(existing) >= 2 && rng.Intn(4) == 0 {
		mode = 9 // override several existing keys, listed in the literal's own order
	}
	switch mode {
	case 9:
		for _, e := range existing {
			if rng.Intn(3) != 0 {
				inject = append(inject, KV{e.K, pickVal(rng, class)})
			}
		}
		if rng.Intn(2) == 0 {
			for _, k := range pickKeys(rng, 1, have) {
				inject = append(inject, KV{k, pickVal(rng, class)})
			}
		}
		if rng.Intn(2) == 0 { // ... or in another order than the literal's
			rng.Shuffle(len(inject), func(a, b int) { inject[a], inject[b] = inject[b], inject[a] })
		}
	case 0: // override only
		k := existing[rng.Intn(len(existing))].K
		inject = []KV{{k, pickVal(rng, class)}}
	case 1: // add only
		for _, k := range pickKeys(rng, 1+rng.Intn(2), have) {
			inject = append(inject, KV{k, pickVal(rng, class)})
		}
	default: // both, several keys, an existing key in the middle
		for _, k := range pickKeys(rng, 1+rng.Intn(2), have) {
			inject = append(inject, KV{k, pickVal(rng, class)})
		}
		k := existing[rng.Intn(len(existing))].K
		pos := rng.Intn(len(inject) + 1)
		inject = append(inject[:pos], append([]KV{{k, pickVal(rng, class)}}, inject[pos:]...)...)
	}
	if len(inject) == 0 {
		inject = []KV{{"valid", pickVal(rng, class)}}
	}
	suffixKey := ""
	if class == "G3" && rng.Intn(5) == 0 {
		// the field already has a key of which an injected NEW key is a suffix, with the same value
		// (`xvalid:"required"` vs `@tag valid:"required"`): a textual "already there" test is fooled
		for _, in := range inject {
			if !have[in.K] && !have["x"+in.K] {
				suffixKey = "x" + in.K + ":\"" + in.V + "\""
				break
			}
		}
	}
	prefix := ""
	if class == "G4" || class == "G1" || rng.Intn(2) == 0 {
		prefix = zhComments[rng.Intn(len(zhComments))] + " "
	}
	if (class == "G3" || class == "G4" || class == "G6") && rng.Intn(5) == 0 {
		// prose in front of the marker that itself looks like a pair (an old name, an example): only what follows
		// the marker is an annotation
		k := "json"
		if len(existing) > 0 && rng.Intn(2) == 0 {
			k = existing[rng.Intn(len(existing))].K
		}
		prefix = []string{"v1 里是 ", "was ", "e.g. ", "旧: "}[rng.Intn(4)] + k + `:"old_name" ` + prefix
	}
	trail := ""
	switch rng.Intn(12) {
	case 0, 1:
		trail = " "
	case 2:
		// prose after the items, in the same comment: it is not part of any value (a backquote in it
		// does not make the field unprocessable)
		trail = []string{" — see `Name` for details", " （备注）", " TODO(me): tidy up", " ; `x`", "  // and more"}[rng.Intn(5)]
	}
	if class == "G6" && rng.Intn(5) == 0 {
		// a doc comment above an annotated field: only the trailing comment counts
		sb.WriteString("\t// @tag doc:\"ignored\"\n")
	}
	writeHead(suffixKey)
	if class == "G6" && len(inject) >= 2 && rng.Intn(4) == 0 {
		// the annotation spread over two trailing block comments
		h := 1 + rng.Intn(len(inject)-1)
		sb.WriteString(" /* " + prefix + "@tag " + kvString(inject[:h], " ") + " */ /* @tag " + kvString(inject[h:], " ") + " */\n")
	} else if (class == "G3" || class == "G6") && len(inject) >= 2 && rng.Intn(5) == 0 {
		// the marker repeated inside ONE comment (the one-marker-per-pair habit of protoc-go-inject-tag):
		// every pair after the first marker counts
		h := 1 + rng.Intn(len(inject)-1)
		sb.WriteString(" // " + prefix + "@tag " + kvString(inject[:h], " ") + " @tag " + kvString(inject[h:], " ") + trail + "\n")
	} else if class == "G6" && rng.Intn(4) == 0 {
		// a first trailing comment WITHOUT @tag, then the annotation in a second one
		sb.WriteString(" /* 备注 note */ /* " + prefix + "@tag " + kvString(inject, " ") + " */\n")
	} else if class == "G6" && rng.Intn(4) == 0 {
		sb.WriteString(" /* " + prefix + "@tag " + kvString(inject, " ") + " */\n")
	} else if (class == "G6" || class == "G3" || class == "G1") && rng.Intn(6) == 0 {
		// no blank after the slashes: comments that look like directives (//nolint:lll, //todo:x,
		// //export, //go:build-like text) are comments all the same, and an annotation may follow directly
		lead := []string{"nolint:lll ", "todo:x ", "export Name ", "go:norace ", "", "extern x ", "lint:ignore U1000 "}[rng.Intn(7)]
		sb.WriteString(" //" + lead + prefix + "@tag " + kvString(inject, " ") + trail + "\n")
	} else {
		sb.WriteString(" // " + prefix + "@tag " + kvString(inject, " ") + trail + "\n")
	}
	return 1
}
