package gen

import (
	"fmt"
	"math/rand"
	"reflect"
	"strconv"
	"strings"
)

// Rule text generation for struct fields, and values biased to the rules' boundaries.

// StrPool: typed strings so that each format rule passes on some and fails on others.
var StrPool = []string{"a", "ab", "abc", "b", "ba", "测试", "测", "13540042617", "1354004261", "a@b.cc", "a@b", "1996", "996", "1996-09", "1996/09", "1996-09-28", "1996/09/28",
	"1996-09-28 23:00:00", "1996-09-28 3:00:00", "1996/09/28 23:00:00", "1996/09/28T23.00.00", "1996-09-28_23:00:00", "1996.09.28", "15", "1,2", "1,1", "a,b", "1.5", "1x5", "{}", "{", "[1,2]", "1.2.3.4", "1.2.3", "::1", "510000000000000000", "51000000000000000X", "abcdefgh", "hello world", "ab测", "18446744073709551616", "7777777777777777777777777777777777777777", "YWJjZA==", "1,18446744073709551616", "a b", "1 2 3", "a bc", "x b", " ab", "1 2 x", "Mr", "mr", "A", "Ab", "aB", "ABC", "MrB"}

// ScalarRules returns candidate rule texts (without message) for a leaf / slice field type.
func ScalarRules(rng *rand.Rand, t reflect.Type) []string {
	b := func(lo, hi int) string { return strconv.Itoa(lo + rng.Intn(hi-lo+1)) }
	switch t.Kind() {
	case reflect.String:
		n := func() string { return b(0, 8) }
		return []string{"required", "to=" + n() + "~" + n(), "ge=" + n(), "le=" + n(), "oto=" + n() + "~" + n(), "gt=" + n(), "lt=" + n(), "eq=" + n(), "noeq=" + n(),
			"in=(a/b/ab/1996)", "in=(测试/'a,b'/15)", "include=(ab/测)", "prefix=a", "prefix=19", "suffix=b", "suffix=测", "phone", "email", "idcard", "ip", "ipv4", "ipv6",
			"year", "year2month", "year2month=/", "date", "date=/", "datetime", "datetime", "datetime='/'", "datetime='/,T,.'", "datetime='-,_'", "date='.'", "int", "ints", "float", "re='^[a-z]+$'", "re='^[0-9]'", "unique", "json",
			// arguments that end (or begin) with a blank: the blank is part of the argument
			"prefix=a ", "suffix= b", "ints= ", "include=(a b/测 )", "in=(a b/ ab)",
			// arguments are taken as written, letter case included
			"prefix=Mr", "suffix=B", "in=(A/b/Ab)", "include=(AB/r)", "re='^[A-Z]+$'", "re='^[A-Z][a-z]'"}
	case reflect.Bool:
		return []string{"required", "in=(true)", "in=(false/x)"}
	case reflect.Int, reflect.Int8, reflect.Int16, reflect.Int32, reflect.Int64:
		n := func() string { return b(-3, 9) }
		return []string{"required", "to=" + n() + "~" + n(), "ge=" + n(), "le=" + n(), "oto=" + n() + "~" + n(), "gt=" + n(), "lt=" + n(), "eq=" + n(), "noeq=" + n(), "in=(1/2/3/-1)", "in=(0/5/7)", "int"}
	case reflect.Uint, reflect.Uint8, reflect.Uint16, reflect.Uint32, reflect.Uint64:
		n := func() string { return b(-2, 9) }
		return []string{"required", "to=" + n() + "~" + n(), "ge=" + n(), "le=" + n(), "oto=" + n() + "~" + n(), "gt=" + n(), "lt=" + n(), "eq=" + n(), "noeq=" + n(), "in=(1/2/3)", "int"}
	case reflect.Float32, reflect.Float64:
		n := func() string { return b(-3, 9) }
		return []string{"required", "to=" + n() + "~" + n(), "ge=" + n(), "le=" + n(), "oto=" + n() + "~" + n(), "gt=" + n(), "lt=" + n(), "eq=" + n(), "noeq=" + n(), "in=(1.5/2/0.25)", "float"}
	case reflect.Slice:
		n := func() string { return b(0, 4) }
		rs := []string{"required", "to=" + n() + "~" + n(), "ge=" + n(), "le=" + n(), "oto=" + n() + "~" + n(), "gt=" + n(), "lt=" + n(), "eq=" + n(), "noeq=" + n()}
		switch t.Elem().Kind() {
		case reflect.String:
			rs = append(rs, "unique", "ints")
		case reflect.Int, reflect.Int8, reflect.Int16, reflect.Int32, reflect.Int64, reflect.Uint, reflect.Uint8, reflect.Uint16, reflect.Uint32, reflect.Uint64:
			rs = append(rs, "unique", "ints")
		case reflect.Float32, reflect.Float64:
			rs = append(rs, "unique")
		}
		return rs
	}
	return []string{"required"}
}

// MsgStyle selects how rule instances are labelled.
const (
	MsgUnique  = iota // every rule instance carries a unique custom message
	MsgMixed          // unique message for 2/3 of the instances, default wording otherwise
	MsgDefault        // no custom messages
)

// RuleList builds the rule text of one field: 0..max rules, with repeated rules, empty items and
// unknown rule names. id makes the messages unique.
func RuleList(rng *rand.Rand, t reflect.Type, max int, id string, style int, allowUnknown bool) string {
	cands := ScalarRules(rng, t)
	n := rng.Intn(max + 1)
	items := []string{}
	for i := 0; i < n; i++ {
		r := cands[rng.Intn(len(cands))]
		if i > 0 && rng.Intn(8) == 0 {
			r = items[rng.Intn(len(items))] // repeat an earlier rule
			if k := strings.Index(r, "|"); k >= 0 {
				r = r[:k]
			}
			if r == "" {
				r = "required"
			}
		}
		if allowUnknown && rng.Intn(25) == 0 {
			r = fmt.Sprintf("nosuch_%s_%d", id, i) // unique per instance: identical clauses would be ambiguous to order
		} else if style == MsgUnique || (style == MsgMixed && rng.Intn(3) != 0) {
			switch {
			case style == MsgMixed && rng.Intn(12) == 0:
				// a one-byte message (the shortest a rule can carry)
				r += "|" + string("xyzQ!?7"[rng.Intn(7)])
			case rng.Intn(3) == 0:
				r += fmt.Sprintf("|必_%s_%d", id, i)
			default:
				r += fmt.Sprintf("|m_%s_%d", id, i)
			}
			if rng.Intn(10) == 0 {
				r += "|again" // a message may itself contain the message separator: only the first one separates
			}
		}
		items = append(items, r)
		if rng.Intn(12) == 0 {
			items = append(items, "") // empty item between commas
		}
	}
	s := strings.Join(items, ",")
	if n > 0 && rng.Intn(15) == 0 {
		s = "," + s
	}
	if n > 0 && rng.Intn(15) == 0 {
		s += ","
	}
	return s
}

// boundsIn extracts the integer bounds mentioned by the size rules of a rule text.
func boundsIn(rules string) []int {
	var out []int
	for _, item := range strings.Split(rules, ",") {
		eq := strings.IndexByte(item, '=')
		if eq < 0 {
			continue
		}
		switch item[:eq] {
		case "to", "ge", "le", "oto", "gt", "lt", "eq", "noeq":
		default:
			continue
		}
		arg := item[eq+1:]
		if k := strings.IndexByte(arg, '|'); k >= 0 {
			arg = arg[:k]
		}
		for _, p := range strings.Split(arg, "~") {
			if n, err := strconv.Atoi(p); err == nil {
				out = append(out, n)
			}
		}
	}
	return out
}

// TunedLeaf picks a value for a leaf of type t that sits near the bounds its rules mention
// (bound-1 / bound / bound+1), so that each rule fails with probability about one half.
func TunedLeaf(rng *rand.Rand, t reflect.Type, rules string, pZero float64) reflect.Value {
	v := reflect.New(t).Elem()
	if rng.Float64() < pZero {
		return v
	}
	bs := boundsIn(rules)
	near := func(lo, hi int) int {
		if len(bs) > 0 && rng.Intn(4) != 0 {
			return bs[rng.Intn(len(bs))] + rng.Intn(3) - 1
		}
		return lo + rng.Intn(hi-lo+1)
	}
	switch t.Kind() {
	case reflect.String:
		if len(bs) > 0 && rng.Intn(2) == 0 {
			n := near(0, 8)
			if n < 0 {
				n = 0
			}
			if n > 12 {
				n = 12
			}
			rs := []rune("ab测1")
			var sb strings.Builder
			for i := 0; i < n; i++ {
				sb.WriteRune(rs[rng.Intn(len(rs))])
			}
			v.SetString(sb.String())
		} else {
			v.SetString(StrPool[rng.Intn(len(StrPool))])
		}
	case reflect.Bool:
		v.SetBool(rng.Intn(2) == 0)
	case reflect.Int, reflect.Int8, reflect.Int16, reflect.Int32, reflect.Int64:
		v.SetInt(int64(near(-4, 10)))
	case reflect.Uint, reflect.Uint8, reflect.Uint16, reflect.Uint32, reflect.Uint64:
		n := near(0, 10)
		if n < 0 {
			n = 0
		}
		v.SetUint(uint64(n))
		if t.Bits() == 64 && rng.Intn(25) == 0 {
			v.SetUint(1<<63 + uint64(rng.Intn(1000))) // beyond the signed range
		}
	case reflect.Float32, reflect.Float64:
		f := float64(near(-4, 10))
		switch rng.Intn(4) {
		case 0:
			f += 0.5
		case 1:
			f -= 0.25
		case 2:
			f = []float64{1.5, 2, 0.25}[rng.Intn(3)]
		}
		v.SetFloat(f)
	case reflect.Slice:
		n := near(0, 4)
		if n < 0 {
			n = 0
		}
		if n > 6 {
			n = 6
		}
		if rng.Intn(20) == 0 {
			n = 17 + rng.Intn(24) // long collections (thresholds of "small input" fast paths)
		}
		if n == 0 && rng.Intn(2) == 0 {
			return v // nil slice
		}
		s := reflect.MakeSlice(t, n, n+(n*7+3)%4) // spare capacity of 0..3: the measure is the length, not the capacity
		for i := 0; i < n; i++ {
			e := s.Index(i)
			switch e.Kind() {
			case reflect.String:
				e.SetString([]string{"1", "2", "3", "a", "12", "测"}[rng.Intn(6)])
				if n > 6 {
					e.SetString("e" + strconv.Itoa(rng.Intn(60)))
				}
			case reflect.Int, reflect.Int8, reflect.Int16, reflect.Int32, reflect.Int64:
				e.SetInt(int64(rng.Intn(5)))
			case reflect.Uint, reflect.Uint8, reflect.Uint16, reflect.Uint32, reflect.Uint64:
				e.SetUint(uint64(rng.Intn(5)))
			case reflect.Float32, reflect.Float64:
				e.SetFloat(float64(rng.Intn(5)) / 2)
			}
		}
		v.Set(s)
	}
	return v
}

// PerturbRules derives an override from a field's own tag rules: the same rule keys with OTHER
// arguments (and fresh unique messages). State keyed by (field, rule key) instead of the full rule
// text — compiled patterns, parsed bounds, parsed option lists — is exposed by exactly this pattern.
func PerturbRules(rng *rand.Rand, tagRules string, t reflect.Type, id string) string {
	cands := ScalarRules(rng, t)
	var out []string
	i := 0
	for _, item := range splitOutsideQuotes(tagRules) {
		if item == "" {
			continue
		}
		key := item
		if k := strings.IndexAny(key, "=|"); k >= 0 {
			key = key[:k]
		}
		if key == "either" || key == "botheq" || key == "exist" || strings.HasPrefix(key, "nosuch") {
			continue
		}
		// candidates with the same key but another text
		var alt []string
		base := item
		if k := strings.LastIndex(base, "|"); k >= 0 && !strings.Contains(base[k:], "'") {
			base = base[:k]
		}
		for _, c := range cands {
			ck := c
			if k := strings.IndexAny(ck, "=|"); k >= 0 {
				ck = ck[:k]
			}
			if ck == key && c != base {
				alt = append(alt, c)
			}
		}
		if len(alt) == 0 {
			continue
		}
		out = append(out, fmt.Sprintf("%s|m_%s_p%d", alt[rng.Intn(len(alt))], id, i))
		i++
	}
	return strings.Join(out, ",")
}

// SplitOutsideQuotes splits rule text at the commas that are not inside single quotes.
func SplitOutsideQuotes(s string) []string { return splitOutsideQuotes(s) }

func splitOutsideQuotes(s string) []string {
	var out []string
	cur := []byte{}
	inQ := false
	for i := 0; i < len(s); i++ {
		c := s[i]
		if c == '\'' {
			inQ = !inQ
		}
		if c == ',' && !inQ {
			out = append(out, string(cur))
			cur = cur[:0]
			continue
		}
		cur = append(cur, c)
	}
	return append(out, string(cur))
}
