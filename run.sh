#!/bin/bash
# Entry used by every MANIFEST command:  run.sh <PROPERTY-ID> <quick|thorough>
#                                        run.sh replay <witness.json>
# Rebuilds the monitor binary (and the CLI under test) from /repo's current working tree on
# every invocation, runs the property's monitor, prints VIOLATION / KNOWN-FINDING lines and
# rewrites evidence/<ID>.json.   exit 0 = held, 1 = violation, 3 = inconclusive.
set -u
VERIF_DIR="$(cd "$(dirname "${BASH_SOURCE[0]}")" && pwd)"
export GOFLAGS=-mod=mod GOPROXY=off GOSUMDB=off GOTOOLCHAIN=local GONOSUMDB='*' GONOSUMCHECK=1 GOFLAGS=-mod=mod
ID="${1:-}"
TIER="${2:-${VERIF_TIER:-quick}}"
SEED="${VERIF_SEED:-1}"
if [ -z "$ID" ]; then echo "usage: run.sh <ID> <quick|thorough> | run.sh replay <file>"; exit 3; fi

TMP="$(mktemp -d "${TMPDIR:-/tmp}/vmon.XXXXXXXX")" || { echo "INCONCLUSIVE cannot create temp dir"; exit 3; }
trap 'rm -rf "$TMP"' EXIT

# Self-test only (tools/seedcheck.sh): VERIF_REPO=<scratch copy of the repository> builds the monitors
# against that copy and writes evidence / replay files to VERIF_OUT instead of /verif. The commands
# registered in MANIFEST.json never set it: they always build from /repo's working tree.
REPO_DIR="${VERIF_REPO:-/repo}"
OUT_DIR="$VERIF_DIR"
MODFLAG=""
if [ -n "${VERIF_REPO:-}" ]; then
  OUT_DIR="${VERIF_OUT:-$TMP/out}"
  mkdir -p "$OUT_DIR"
  cp "$VERIF_DIR/KNOWN_FINDINGS.txt" "$OUT_DIR/" 2>/dev/null
  sed "s#=> /repo#=> $REPO_DIR#" "$VERIF_DIR/harness/go.mod" > "$TMP/go.mod"
  cp "$VERIF_DIR/harness/go.sum" "$TMP/go.sum"
  MODFLAG="-modfile=$TMP/go.mod"
fi

RACE=""
case "$ID" in
  C10|C11|C12) RACE="-race" ;;
esac
TAGS="-tags verif"
# Self-audit only (tools/coveraudit.sh): VERIF_COVER_DIR=<dir> builds monitor and CLI with statement-coverage
# instrumentation of the repository's packages and collects the counters there. Never set by MANIFEST commands.
COVER=""
if [ -n "${VERIF_COVER_DIR:-}" ]; then
  mkdir -p "$VERIF_COVER_DIR"; export GOCOVERDIR="$VERIF_COVER_DIR"
  COVER="-cover -coverpkg=gitee.com/xuesongtao/protoc-go-valid/..."
fi

build() { # $1 = extra flags
  (cd "$VERIF_DIR/harness" && go build $MODFLAG $1 $RACE $COVER -o "$TMP/vmon" ./cmd/vmon) >"$TMP/build.log" 2>&1
}
HOOKS=on
if ! build "$TAGS"; then
  # the optional hook file may have been broken by a refactoring: fall back to the untagged build
  cp "$TMP/build.log" "$TMP/build_tagged.log"
  HOOKS=off
  if ! build ""; then
    echo "INCONCLUSIVE property=$ID harness does not build against /repo:"; tail -20 "$TMP/build.log"; exit 3
  fi
fi
export VMON_HOOKS=$HOOKS VMON_HARNESS_DIR="$VERIF_DIR/harness" VMON_MODFLAG="$MODFLAG"

if [ "$ID" = "replay" ]; then
  "$TMP/vmon" replay "$TIER"; exit $?
fi

CLI=""
case "$ID" in
  C06|C07|C19)
    if ! (cd "$REPO_DIR" && go build $COVER -o "$TMP/protoc-go-valid" .) >"$TMP/build_cli.log" 2>&1; then
      echo "INCONCLUSIVE property=$ID CLI does not build:"; tail -20 "$TMP/build_cli.log"; exit 3
    fi
    CLI="$TMP/protoc-go-valid"
    # the library route (file.ParseFile + file.WriteFile) as a helper of its own: if the file package's
    # signatures changed it does not build, and the monitors use the CLI for those files instead
    if (cd "$VERIF_DIR/harness" && go build $MODFLAG $COVER -o "$TMP/libinject" ./cmd/libinject) >"$TMP/build_lib.log" 2>&1; then
      export VMON_LIBINJECT="$TMP/libinject"
    else
      export VMON_LIBINJECT=""
    fi ;;
esac

mkdir -p "$OUT_DIR/evidence" "$TMP/run"
export GORACE="halt_on_error=0 log_path=$TMP/run/race"
"$TMP/vmon" run --prop "$ID" --tier "$TIER" --seed "$SEED" --cli "$CLI" --verif "$OUT_DIR" --tmp "$TMP/run"
exit $?
